"""C12, C13, C14 - the DOM as a tree-shaped state machine.

spec -> impl: MC_Dom.tla (TLC explores every edit history over a bounded node pool, checks TreeInv / OrderInv /
              AtomicFailure on the design and dumps the labelled transition relation) -> harness `replay-dom`
              fires every edge on the real objects (reaching each state through real calls) and walks the graph
              at random.
impl -> spec: harness `dom-record` runs long seeded random histories over a larger pool (no graph), logging
              every call with the projected pre/post state; harness `dom-query` adds, for C14, the result of a
              battery of XPath queries on the edited document and on a fresh parse of its serialization.
              Trace_Dom.tla judges every event from its own logged pre-state.
"""
import json
import os
import subprocess

import common as C

POOLS = {"quick": ["s"], "thorough": ["s", "n", "q"]}
KEY = {"C12": "c12", "C13": "c13", "C14": "c14", "C07": "c07", "C15": "c15"}


def _validate(out, prop, trace, tag, only_why=None):
    """Run Trace_Dom.tla over an ndjson trace; feed the verdicts of `prop` into `out`."""
    n = C.count_lines(trace)
    if n <= 1:
        return 0
    cfgname = "Trace_Dom.%d.cfg" % os.getpid()
    cfg = os.path.join(C.SPEC, cfgname)
    C.write_cfg(cfg, [
        "SPECIFICATION Spec",
        "CONSTANT Open = %s" % C.tla_set(out.open.keys()),
        "POSTCONDITION Done",
        "CHECK_DEADLOCK FALSE",
    ])
    try:
        res = C.run_tlc("Trace_Dom", cfgname, tag, env={"TRACE": trace}, workers=1, deque=True,
                        timeout=3000, xmx="8g")
    finally:
        os.unlink(cfg)
    C.tlc_must_pass(res, "Trace_Dom")
    for t, v in res.lines:
        if t == "TRUNCATED":
            raise C.ToolError("trace validation consumed only part of the trace: %s" % (v,))
    if res.distinct != n:
        raise C.ToolError("trace validation visited %d states for %d lines" % (res.distinct, n))
    events = None
    k = KEY[prop]
    for t, v in res.lines:
        if t != "VERDICT":
            continue
        pv = v.get(k, {})
        if pv.get("v") in ("ok", "skip", None):
            continue
        if only_why is not None and pv.get("why") not in only_why:
            continue
        if events is None:
            events = C.read_ndjson(trace)
        rec = dict(pv)
        rec["verdict"] = rec.pop("v")
        rec["i"] = v["i"]
        ev = events[v["i"] - 1]
        case = {"pool": events[0].get("pool"), "event": ev}
        if "hist" not in ev and "calls" not in ev:
            calls = []
            for e in reversed(events[1:v["i"] - 1]):
                if e.get("event") == "prelude":
                    case["prelude"] = True
                if e.get("event") == "reset":
                    break
                if e.get("event") == "call":
                    calls.append(e["call"])
                    if "silent" in e:            # a burst: the silent call came first
                        calls.append(e["silent"])
            case["calls"] = list(reversed(calls))
            if "silent" in ev:
                case["calls"].append(ev["silent"])
        out.verdict(rec, case)
    return n - 1


def edited_queries(out, prop, tier, wd):
    """C07 on edited documents: random DOM histories with the query battery after every change; the structure of
    every node-set (document order by the harness's own walk, no duplicates) is judged by Trace_Dom.tla"""
    nh, ln = {"quick": (6, 120), "thorough": (60, 300)}[tier]
    rec = os.path.join(wd, "editq.trace")
    so, crashed = C.run_harness_watched(["dom-record", "--out", rec, "--histories", str(nh), "--len", str(ln),
                                         "--seed", str(C.seed()), "--queries"], rec, timeout=3000)
    n = _validate(out, prop, rec, "editq")
    os.unlink(rec)
    return n


def merged_histories(out, prop, tier, wd):
    """C12 in the merged-text view (the view XPath and the tools use): random histories on a document opened with
    Context::from_text_expanded(true); only the agreement of the navigational views is judged (Trace_Dom C12Merged)"""
    nh, ln = {"quick": (8, 120), "thorough": (80, 300)}[tier]
    rec = os.path.join(wd, "merged.trace")
    so, crashed = C.run_harness_watched(["dom-record", "--out", rec, "--histories", str(nh), "--len", str(ln),
                                         "--seed", str(C.seed()), "--merged"], rec, timeout=3000)
    st = {"steps": 0} if crashed else json.loads(so.strip().splitlines()[-1])
    _validate(out, prop, rec, "merged")
    os.unlink(rec)
    return st["steps"]


def c15_histories(out, prop, tier, wd, only_why=None):
    """C15 over structural histories: random insertions / removals / attribute edits over a pool whose character data is
    harmless node by node and dangerous in combination; after every successful state-changing call the document is
    printed, re-parsed and both content signatures are logged; Trace_Dom.tla (c15) judges"""
    nh, ln = {"quick": (30, 60), "thorough": (600, 100)}[tier]
    if prop != "C15" and tier == "thorough":
        nh = 200          # a side run of C12 / C13: a third of C15's own depth
    rec = os.path.join(wd, "c15hist.trace")
    so, crashed = C.run_harness_watched(["dom-record", "--out", rec, "--histories", str(nh), "--len", str(ln),
                                         "--seed", str(C.seed()), "--c15"], rec, timeout=3000)
    st = {"steps": 0, "queries": 0} if crashed else json.loads(so.strip().splitlines()[-1])
    n = _validate(out, prop, rec, "c15hist", only_why)
    os.unlink(rec)
    return st["steps"], st["queries"]


def _shards(args_base, n, wd, name):
    """run `replay-dom` in n parallel shards; returns (stats list, residual files)"""
    from concurrent.futures import ThreadPoolExecutor
    zero = {"edges_replayed": 0, "walk_steps": 0, "unreached_states": 0, "crashed": True}

    def one(k):
        res = os.path.join(wd, "%s.res.%d" % (name, k))
        so, crashed = C.run_harness_watched(args_base + ["--out", res, "--shard", "%d/%d" % (k, n)], res, timeout=7200)
        return (dict(zero) if crashed else json.loads(so.strip().splitlines()[-1])), res
    with ThreadPoolExecutor(max_workers=n) as ex:
        results = list(ex.map(one, range(n)))
    return [r[0] for r in results], [r[1] for r in results]


def run(prop, tier):
    out = C.Outcome(prop, tier)
    wd = C.workdir("dom" + prop)
    seed = C.seed()
    try:
        edges = 0
        walk_steps = 0
        by_op = {}
        for pool in POOLS[tier]:
            dump = os.path.join(wd, "dom_%s.out" % pool)
            mc = C.run_tlc("MC_Dom", "MC_Dom_%s.cfg" % pool, "dommc" + pool, to_file=dump, workers=8,
                           timeout=3000, keep_tags=["POOL", "NODE"])
            C.tlc_must_pass(mc, "MC_Dom pool " + pool)
            out.add_tlc(mc)
            nshard = 1 if pool == "s" else 8
            walks = {"quick": 60, "thorough": 400}[tier] // nshard + 1
            stats, files = _shards(["replay-dom", "--in", dump, "--walks", str(walks), "--len", "200",
                                    "--seed", str(seed), "--trace-walks", "3"], nshard, wd, pool)
            os.unlink(dump)
            for st in stats:
                edges += st["edges_replayed"]
                walk_steps += st["walk_steps"]
                for op, v in st.get("by_op", {}).items():
                    acc = by_op.setdefault(op, {"may_succeed": 0, "must_fail": 0})
                    acc["may_succeed"] += v["may_succeed"]
                    acc["must_fail"] += v["must_fail"]
                if st["unreached_states"]:
                    out.assumptions.append("pool %s: %d abstract states could not be reached on the real objects "
                                           "(the diverging edge is reported itself)" % (pool, st["unreached_states"]))
            for k, f in enumerate(files):
                out.traces += _validate(out, prop, f, "domtv%s%d" % (pool, k))
                os.unlink(f)
            out.extra.setdefault("pools", {})[pool] = {"states": mc.distinct, "transitions": mc.states}
        # impl -> spec: long random histories over a larger pool, every event judged by Trace_Dom
        nh, ln = {"quick": (12, 150), "thorough": (120, 300)}[tier]
        rec = os.path.join(wd, "rec.trace")
        so, crashed = C.run_harness_watched(["dom-record", "--out", rec, "--histories", str(nh), "--len", str(ln),
                                             "--seed", str(seed)] + (["--queries"] if prop == "C14" else []), rec,
                                            timeout=3000)
        rstats = {"steps": 0, "queries": 0} if crashed else json.loads(so.strip().splitlines()[-1])
        out.traces += _validate(out, prop, rec, "domtvrec")
        evs = C.read_ndjson(rec)
        for e in evs[1:]:
            if e.get("event") == "crash":
                continue
            if e.get("event") == "call":
                c = e["call"]
                changed = e["pre"]["kids"] != e["post"]["kids"] or e["pre"]["attrs"] != e["post"]["attrs"]
                if changed or "err" in e["out"]:
                    out.nontriv([c, e["pre"]["kids"], e["pre"]["attrs"]])
            else:
                out.nontriv([e.get("expr"), e.get("live")])
        for e in evs[1:4]:
            out.sample({"call": e.get("call"), "out": e.get("out"),
                        "pre_kids": e.get("pre", {}).get("kids"), "post_kids": e.get("post", {}).get("kids")})
        extra_eval = 0
        if prop == "C12":
            msteps = merged_histories(out, prop, tier, wd)
            out.extra["merged_view_history_steps"] = msteps
            extra_eval += msteps
        if prop in ("C12", "C13"):
            # histories over the pool with entity references (one whose replacement text holds markup and is refused by
            # an attribute, one that is accepted) and adjacent character data: the refused insertions are where a
            # failing call can leave a node unlinked or with a stale parent (seeded defect C12-r6m1)
            # C13: Dom.tla does not model the well-formedness refusals of this pool (an entity whose replacement text
            # holds markup is refused by an attribute with HIERARCHY_REQUEST_ERR - C15 asks for exactly that refusal, DOM
            # Level 1 names no class for it), so only what holds for ANY refusal is judged here: no panic, and a failing
            # call leaves the observable state as it was
            c13_only = ["panic", "a failing call changed the observable state"] if prop == "C13" else None
            esteps, _ = c15_histories(out, prop, tier, wd, c13_only)
            out.extra["entity_reference_history_steps"] = esteps
            extra_eval += esteps
        if prop == "C13":
            # value / data setters and the create_* factories (exception classes, no panic, atomic failure)
            import domtext
            tot = domtext.run_chardata(out, prop, tier, wd)
            names = domtext.run_factory(out, prop, tier, wd)
            attr_events = domtext.run_attrs(out, prop, tier, wd)
            extra_eval += tot["events"] + 4 * names + attr_events
            out.extra.update({"chardata_events": tot["events"], "factory_names": names})
        out.evaluations = edges + walk_steps + rstats["steps"] + extra_eval
        out.nontrivial_count = edges
        # anti-vacuity: every operation of the machine was fired both where it may succeed and where it must fail
        out.extra["edges_by_operation"] = by_op
        never = sorted(op for op, v in by_op.items()
                       if v["may_succeed"] == 0 or (v["must_fail"] == 0 and op != "remove_attribute"))   # (it cannot fail)
        if never or not by_op:
            out.assumptions.append("operations never fired in one of the two classes (may succeed / must fail): %s" % (never or "no statistics"))
        out.extra.update({"edges_replayed": edges, "graph_walk_steps": walk_steps,
                          "recorded_history_steps": rstats["steps"], "recorded_queries": rstats.get("queries", 0)})
        out.rule = ("every (state, call) edge of the TLC state graph of each pool is fired on the real objects after "
                    "reaching the state through real calls (each edge is a distinct case: counted in "
                    "distinct_nontrivial); plus seeded random walks over the graph and long random histories over "
                    "a 27-node pool, where a step is non-trivial if it changes a child/attribute list or fails")
        out.assumptions += [
            "pools: %s (see spec/MC_Dom.tla); histories of unbounded length over these pools at the design level, "
            "edge-complete at the implementation level" % ", ".join(POOLS[tier]),
            "DocumentFragment, DocumentType/Entity/Notation nodes as movable arguments are outside the pools",
            "calls whose outcome DOM Level 1 leaves open (insert_before(x, x), replace_child(x, x)) are only "
            "required to keep the tree invariant",
        ]
        return out.finish()
    finally:
        C.cleanup(wd)


def replay(prop, path):
    """Re-run a stored case: the event's call is applied to a world rebuilt to the logged pre-state."""
    out = C.Outcome(prop, "quick")
    out.no_evidence = True
    wd = C.workdir("domr")
    try:
        v = json.load(open(path))
        case = v.get("case", v)
        inp = os.path.join(wd, "case.json")
        with open(inp, "w") as f:
            json.dump(case, f)
        tr = os.path.join(wd, "r.trace")
        C.run_harness_watched(["dom-rerun", "--in", inp, "--out", tr], tr)
        out.traces = _validate(out, prop, tr, "domrr")
        out.evaluations = 1
        out.nontrivial_count = 2
        out.sample(case.get("event", {}).get("call"))
        out.rule = "replay of one stored case"
        return out.finish()
    finally:
        C.cleanup(wd)
