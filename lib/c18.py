"""C18 - character classes and name syntax.

spec -> impl: MC_Name.tla (name automaton vs. declarative definitions; TLC enumerates every string over
              the representative alphabet up to MaxLen and emits it) -> harness `names` parses each
              string in six syntactic roles.
impl -> spec: harness `classes` dumps the five predicates over all 1 114 112 code points as maximal
              intervals; Trace_Char.tla judges every class event and every name event.
"""
import json
import os

import common as C


def _cfg(path, exhaustive, open_names):
    C.write_cfg(path, [
        "SPECIFICATION Spec",
        "CONSTANT Exhaustive = %s" % ("TRUE" if exhaustive else "FALSE"),
        "CONSTANT Open = %s" % C.tla_set(open_names),
        "POSTCONDITION Done",
        "CHECK_DEADLOCK FALSE",
    ])


def _validate(out, trace, exhaustive, tag):
    cfgname = "Trace_Char.%d.cfg" % os.getpid()
    cfg = os.path.join(C.SPEC, cfgname)
    _cfg(cfg, exhaustive, out.open.keys())
    try:
        res = C.run_tlc("Trace_Char", cfgname, tag, env={"TRACE": trace}, workers=1, deque=True,
                        timeout=3000)
    finally:
        os.unlink(cfg)
    C.tlc_must_pass(res, "Trace_Char")
    n = C.count_lines(trace)
    for tag_, v in res.lines:
        if tag_ == "TRUNCATED":
            raise C.ToolError("trace validation consumed only part of the trace: %s" % (v,))
    if res.distinct != n + 1:
        raise C.ToolError("trace validation visited %d states for %d events" % (res.distinct, n))
    events = C.read_ndjson(trace)
    for tag_, v in res.lines:
        if tag_ == "VERDICT":
            out.verdict(v, events[v["i"] - 1])
    return res, events


def run(prop, tier):
    out = C.Outcome(prop, tier)
    wd = C.workdir("c18")
    try:
        # 1. model check the name automaton and emit all strings
        replay = os.path.join(wd, "names.replay")
        mc = C.run_tlc("MC_Name", "MC_Name_%s.cfg" % tier, "c18mc", to_file=replay, workers=8,
                       timeout=1500, keep_tags=["REPLAY"])
        C.tlc_must_pass(mc, "MC_Name")
        out.add_tlc(mc)
        # 2. replay into the implementation, dump the classes
        trace = os.path.join(wd, "c18.trace")
        C.run_harness(["classes", "--out", trace])
        roles = os.path.join(wd, "roles.obs")
        C.run_harness(["charroles", "--out", roles], timeout=1800)
        with open(trace, "a") as f, open(roles) as g:
            for line in g:
                f.write(line)
        obs = os.path.join(wd, "names.obs")
        C.run_harness(["names", "--in", replay, "--out", obs])
        with open(trace, "a") as f, open(obs) as g:
            for line in g:
                f.write(line)
        # 3. trace validation
        res, events = _validate(out, trace, tier == "thorough", "c18tv")
        out.traces = len(events)
        ncls = sum(1 for e in events if e["event"] == "class")
        out.evaluations = (len(events) - ncls) * 6 + ncls   # six roles per name event, one per class event
        for e in events:
            if e["event"] == "class":
                out.nontriv(e["cls"])
                out.sample({"cls": e["cls"], "intervals": len(e["ivs"]), "first": e["ivs"][:3]})
            else:
                vals = [e[r] for r in ("elem", "attr", "pi", "ent", "doctype")]
                if len(e["s"]) >= 2 or any(v is True for v in vals):
                    out.nontriv(e["s"])
        for e in [x for x in events if x["event"] != "class"][:3]:
            out.sample(e, limit=8)
        out.exhaustive = True
        out.rule = ("classes: each of the 5 predicates, and the acceptance of a character written literally in "
                    "character data / an attribute value / a comment / PI data / a CDATA section, and the acceptance of a document at 10 "
                    "sites where one class decides (EncName first/continuation, VersionNum, PubidLiteral in either quote, first/later "
                    "character of element and attribute names, the character after xmlns), evaluated on all 1,114,112 scalar values and "
                    "compared with the specification's tables (quick: at every interval bound of either "
                    "side, which decides equality of two unions of intervals; thorough: at every code "
                    "point); names: every string of length <= MaxLen over 18 class representatives in 6 "
                    "syntactic roles; a name case is non-trivial if it has >= 2 characters or is accepted "
                    "in some role")
        out.assumptions = [
            "name strings are drawn from 18 representatives of the character classes, length <= %d"
            % (3 if tier == "quick" else 4),
            "PI targets and entity names containing a colon: either answer accepted (Namespaces in XML "
            "asks for NCName there, XML 1.0 for Name)",
        ]
        out.extra["name_strings"] = len(events) - ncls
        out.extra["classes_and_sites"] = ncls
        return out.finish()
    finally:
        C.cleanup(wd)


def replay(prop, path):
    """Re-run the stored case against the current tree."""
    out = C.Outcome(prop, "quick")
    out.no_evidence = True
    wd = C.workdir("c18r")
    try:
        v = json.load(open(path))
        case = v.get("case", v)
        trace = os.path.join(wd, "r.trace")
        if case.get("event") == "class" or "cls" in case:
            C.run_harness(["classes", "--out", trace])
        else:
            inp = os.path.join(wd, "r.in")
            with open(inp, "w") as f:
                f.write(json.dumps({"s": case["s"]}) + "\n")
            C.run_harness(["names", "--in", inp, "--out", trace])
        _validate(out, trace, False, "c18rv")
        out.traces = 1
        out.evaluations = 1
        out.nontrivial_count = 2
        out.sample(case)
        out.rule = "replay of one stored case"
        return out.finish()
    finally:
        C.cleanup(wd)
