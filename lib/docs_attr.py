"""C11 - attribute value normalization and defaulting.

spec -> impl: MC_Attr.tla (TLC enumerates attribute value literals x declared type x default kind x
              written x ATTLIST layout, checks the theorems of AttrNorm.tla and emits one REPLAY case per
              combination with the document text rendered by AttrNormSurface.Render) -> harness
              `doc-attr-replay` parses every text in both views and records what the public DOM API
              (and XPath count(@*) / string(@name)) reports.
impl -> spec: harness `doc-attr-record` (seeded random abstract documents: longer literals, wider alphabet,
              nested entities, several elements / ATTLISTs / attributes).
judge:        Trace_Attr.tla re-computes the effective attributes of every event from the abstract case with
              the AttrNorm operators and prints a VERDICT for every event that is not ideal.
"""
import concurrent.futures
import glob
import json
import os

import common as C

FAST_SAMPLE = 2000      # fast-path cases that are nevertheless judged by TLC (never vacuous)


def _cfg(path, open_names):
    C.write_cfg(path, [
        "SPECIFICATION Spec",
        "CONSTANT Open = %s" % C.tla_set(open_names),
        "POSTCONDITION Done",
        "CHECK_DEADLOCK FALSE",
    ])


CHUNK = int(os.environ.get("VERIF_C11_CHUNK", "0"))   # events per TLC instance of the trace validation (0: by size)
PARALLEL = 4            # TLC instances (one worker each) run side by side on big traces


def _validate_one(cfgname, trace, tag, timeout):
    res = C.run_tlc("Trace_Attr", cfgname, tag, env={"TRACE": trace}, workers=1, deque=True,
                    timeout=timeout, xmx="6g")
    C.tlc_must_pass(res, "Trace_Attr")
    n = C.count_lines(trace)
    for tag_, v in res.lines:
        if tag_ == "TRUNCATED":
            raise C.ToolError("trace validation consumed only part of the trace: %s" % (v,))
    if res.distinct != n + 1:
        raise C.ToolError("trace validation visited %d states for %d events" % (res.distinct, n))
    return res, n


def _validate(out, trace, tag, timeout=3000):
    """Judge every event of `trace` with Trace_Attr.tla (events are independent, so a big trace is cut into
    chunks judged by several TLC instances); -> (TlcResult of the first chunk with summed counters, #events)"""
    # the generated cfg lives under work/ (an absolute -config path), never in spec/
    os.makedirs(C.WORK, exist_ok=True)
    cfg = cfgname = os.path.join(C.WORK, "Trace_Attr.%d.cfg" % os.getpid())
    _cfg(cfg, out.open.keys())
    total = C.count_lines(trace)
    chunk = CHUNK if CHUNK > 0 else (25000 if total > 50000 else max(2500, (total + 1) // 2))
    chunks = []                      # (path, offset)
    if total <= chunk:
        chunks.append((trace, 0))
    else:
        with open(trace) as f:
            k = 0
            while True:
                path = "%s.%d" % (trace, k)
                n = 0
                with open(path, "w") as g:
                    for line in f:
                        g.write(line)
                        n += 1
                        if n == chunk:
                            break
                if n == 0:
                    os.unlink(path)
                    break
                chunks.append((path, k * chunk))
                k += 1
    try:
        with concurrent.futures.ThreadPoolExecutor(max_workers=PARALLEL) as ex:
            futs = [ex.submit(_validate_one, cfgname, path, "%s%d" % (tag, i), timeout)
                    for i, (path, _) in enumerate(chunks)]
            results = [fu.result() for fu in futs]
    finally:
        os.unlink(cfg)
    wall0 = results[0][0].wall
    verdicts = []
    nev = 0
    for (path, off), (res, n) in zip(chunks, results):
        nev += n
        for t, v in res.lines:
            if t == "VERDICT":
                v["i"] += off
                verdicts.append(v)
    if nev != total:
        raise C.ToolError("trace validation judged %d of %d events" % (nev, total))
    if verdicts:
        wanted = {v["i"] for v in verdicts}
        events = {}
        with open(trace) as f:
            for i, line in enumerate(f, 1):
                if i in wanted:
                    events[i] = json.loads(line)
        for v in verdicts:
            if str(v.get("verdict", "")).startswith("TOOL-"):
                raise C.ToolError("%s on event %d of %s" % (v["verdict"], v["i"], trace))
            out.verdict(v, events.get(v["i"]))
    for path, _ in chunks:
        if path != trace:
            os.unlink(path)
    res = results[0][0]
    res.wall = max(r.wall for r, _ in results) if len(results) <= PARALLEL else sum(r.wall for r, _ in results) / PARALLEL
    return res, nev


def _split(obs, trace, budget):
    """Copy to `trace` every event that is not fast plus the first `budget` fast ones.
    -> (total, judged, fast_only, stats)"""
    total = judged = fast_only = 0
    kept_fast = 0
    with open(obs) as f, open(trace, "a") as g:
        for line in f:
            total += 1
            fast = '"fast":true' in line
            if fast and kept_fast >= budget:
                fast_only += 1
                continue
            if fast:
                kept_fast += 1
            judged += 1
            g.write(line)
    return total, judged, fast_only


def _replay_parallel(replay, obs, wd, nproc):
    """doc-attr-replay over `nproc` contiguous chunks of the REPLAY file, outputs concatenated in order"""
    import docs
    if nproc <= 1:
        docs.replay_cases(replay, obs, cmd=["doc-attr-replay", "--in", replay])
        return
    n = C.count_lines(replay)
    per = (n + nproc - 1) // nproc
    parts = []
    with open(replay) as f:
        for k in range(nproc):
            pin = os.path.join(wd, "part%d.replay" % k)
            with open(pin, "w") as g:
                for _ in range(per):
                    line = f.readline()
                    if not line:
                        break
                    g.write(line)
            parts.append((pin, os.path.join(wd, "part%d.obs" % k)))
    with concurrent.futures.ThreadPoolExecutor(max_workers=nproc) as ex:
        # under the harness watchdog: a crash or hang of the code under test becomes a judged event
        futs = [ex.submit(docs.replay_cases, pin, pout, ["doc-attr-replay", "--in", pin]) for pin, pout in parts]
        for fu in futs:
            fu.result()
    with open(obs, "w") as g:
        for pin, pout in parts:
            with open(pout) as f:
                for line in f:
                    g.write(line)
            os.unlink(pin)
            os.unlink(pout)


def _rnd_stats(doc, text, st):
    """what the random documents exercised (evidence only)"""
    present = [e["el"] for e in doc["els"]]
    decl = [a["el"] for a in doc["attlists"]]
    if any(d in present for d in decl):
        st["with_declared_attribute_of_present_element"] += 1
    if any(decl.count(d) >= 2 and d in present for d in decl):
        st["with_two_attlists_for_one_element"] += 1
    vals = [w["v"] for e in doc["els"] for w in e["written"]] + \
           [d["dv"] for a in doc["attlists"] for d in a["defs"]]
    ents = {tuple(x["n"]): x["v"] for x in doc["ents"]}

    def depth(items):
        return max([0] + [1 + depth(ents.get(tuple(it["n"]), [])) for it in items if it["t"] == "e"])
    d = max([0] + [depth(v) for v in vals])
    if d >= 1:
        st["with_entity_reference_in_a_value"] += 1
    if d >= 3:
        st["entity_nesting_depth_ge_3"] += 1
    if len(doc["els"]) > 1:
        st["with_several_elements"] += 1
    if any(c > 127 for c in text):
        st["with_non_ascii"] += 1


def _abs_key(e):
    if e.get("k") == "mc":
        a = e["abs"]
        return ["mc", a["items"], a["ty"], a["dk"], a["layout"], a["written"]]
    return ["rnd", e.get("text")]


def run(prop, tier):
    out = C.Outcome(prop, tier)
    wd = C.workdir("c11")
    # stored cases of an earlier run with the same tier and seed would be mistaken for this run's
    for f in glob.glob(os.path.join(C.REPLAYS, prop, "%s-%d-*.json" % (tier, C.seed()))):
        os.unlink(f)
    try:
        # 1. model check AttrNorm's theorems over the literal space and emit the cases
        replay = os.path.join(wd, "attr.replay")
        mc = C.run_tlc("MC_Attr", "MC_Attr_%s.cfg" % tier, "c11mc", to_file=replay, workers=8,
                       timeout=2400, keep_tags=["REPLAY"])
        C.tlc_must_pass(mc, "MC_Attr")
        out.add_tlc(mc)
        ncases = C.count_lines(replay)
        if ncases == 0:
            raise C.ToolError("MC_Attr emitted no case")
        # 2. spec -> impl: replay every case into the DOM
        obs = os.path.join(wd, "attr.obs")
        _replay_parallel(replay, obs, wd, 3 if ncases < 100000 else 4)
        if C.count_lines(obs) != ncases:
            raise C.ToolError("harness observed %d of %d cases" % (C.count_lines(obs), ncases))
        os.unlink(replay)
        # 3. impl -> spec: seeded random documents
        rnd = os.path.join(wd, "attr.rnd")
        nrnd = 1200 if tier == "quick" else 30000
        import docs
        docs.replay_cases(None, rnd, cmd=["doc-attr-record", "--seed", str(C.seed()), "--count", str(nrnd)])
        # 4. one judge: Trace_Attr.tla
        trace = os.path.join(wd, "attr.trace")
        open(trace, "w").close()
        total, judged, fast_only = _split(obs, trace, FAST_SAMPLE)
        with open(rnd) as f, open(trace, "a") as g:
            for line in f:
                g.write(line)
        res, nev = _validate(out, trace, "c11tv")
        # one attribute node moved between elements with different declared types (AttrMove.tla): the value follows
        # the type declared for the CURRENT owner, whatever was read before
        amr = os.path.join(wd, "am.replay")
        ammc = C.run_tlc("MC_AttrMove", "MC_AttrMove_%s.cfg" % tier, "ammc", to_file=amr, workers=4, timeout=900,
                         keep_tags=["REPLAY"])
        C.tlc_must_pass(ammc, "MC_AttrMove")
        out.add_tlc(ammc)
        amt = os.path.join(wd, "am.trace")
        so = C.run_harness(["dom-attrmove", "--in", amr, "--out", amt])
        am_sessions = json.loads(so.strip().splitlines()[-1])["sessions"]
        cfgname = "Trace_AttrMove.%d.cfg" % os.getpid()
        cfgp = os.path.join(C.SPEC, cfgname)
        C.write_cfg(cfgp, ["SPECIFICATION TSpec", "CONSTANT MaxLen = 6", "CONSTANT Open = %s" % C.tla_set(out.open.keys()),
                           "POSTCONDITION Done", "CHECK_DEADLOCK FALSE"])
        try:
            r2 = C.run_tlc("Trace_AttrMove", cfgname, "amtv", env={"TRACE": amt}, workers=1, deque=True, timeout=900)
        finally:
            os.unlink(cfgp)
        C.tlc_must_pass(r2, "Trace_AttrMove")
        if r2.distinct != C.count_lines(amt) + 1:
            raise C.ToolError("attribute-move validation visited %d states for %d events" % (r2.distinct, C.count_lines(amt)))
        am_events = None
        for tg, v in r2.lines:
            if tg == "TRUNCATED":
                raise C.ToolError("attribute-move validation truncated")
            if tg == "VERDICT":
                if am_events is None:
                    am_events = C.read_ndjson(amt)
                out.verdict(v, am_events[v["i"] - 1])
        out.extra["attribute_move_sessions"] = am_sessions
        # defaulting is by QUALIFIED name (AttrQName.tla): a, p:a and q:a are three attributes; observed without names
        aqr = os.path.join(wd, "aq.replay")
        aqmc = C.run_tlc("MC_AttrQName", "MC_AttrQName.cfg", "aqmc", to_file=aqr, workers=2, timeout=900,
                         keep_tags=["REPLAY"])
        C.tlc_must_pass(aqmc, "MC_AttrQName")
        out.add_tlc(aqmc)
        aqt = os.path.join(wd, "aq.trace")
        so = C.run_harness(["dom-attrq", "--in", aqr, "--out", aqt])
        aq_events = json.loads(so.strip().splitlines()[-1])["events"]
        if aq_events < 2 * C.count_lines(aqr) or aq_events == 0:
            raise C.ToolError("dom-attrq observed %d events for %d cases" % (aq_events, C.count_lines(aqr)))
        cfgname = "Trace_AttrQName.%d.cfg" % os.getpid()
        cfgp = os.path.join(C.SPEC, cfgname)
        C.write_cfg(cfgp, ["SPECIFICATION TSpec", "CONSTANT Open = %s" % C.tla_set(out.open.keys()),
                           "POSTCONDITION Done", "CHECK_DEADLOCK FALSE"])
        try:
            r3 = C.run_tlc("Trace_AttrQName", cfgname, "aqtv", env={"TRACE": aqt}, workers=1, deque=True, timeout=900)
        finally:
            os.unlink(cfgp)
        C.tlc_must_pass(r3, "Trace_AttrQName")
        if r3.distinct != aq_events + 1:
            raise C.ToolError("qualified-name validation visited %d states for %d events" % (r3.distinct, aq_events))
        aq_evs = None
        for tg, v in r3.lines:
            if tg == "TRUNCATED":
                raise C.ToolError("qualified-name validation truncated")
            if tg == "VERDICT":
                if aq_evs is None:
                    aq_evs = C.read_ndjson(aqt)
                out.verdict(v, aq_evs[v["i"] - 1])
        out.extra["qualified_name_defaulting_events"] = aq_events
        out.traces = nev + am_sessions + aq_events
        out.evaluations = total + nrnd + am_sessions + aq_events
        # evidence: non-trivial = the literal has a reference or white space, or the case is defaulted
        with open(obs) as f:
            for line in f:
                e = json.loads(line)
                a = e["abs"]
                if any(it["t"] != "c" or it["c"] in (32, 9, 10, 13) for it in a["items"]) or not a["written"]:
                    out.nontriv(_abs_key(e))
                if len(a["items"]) >= 2 and a["ty"] not in ("", "CDATA") and a["layout"] != "one" and \
                        any(it["t"] == "e" for it in a["items"]) and any(it["t"] == "r" for it in a["items"]):
                    out.sample({"abs": a, "views": e["views"][1:]}, limit=3)
        stats = {"with_declared_attribute_of_present_element": 0, "with_entity_reference_in_a_value": 0,
                 "entity_nesting_depth_ge_3": 0, "with_several_elements": 0, "with_non_ascii": 0,
                 "with_two_attlists_for_one_element": 0}
        with open(rnd) as f:
            for i, line in enumerate(f):
                e = json.loads(line)
                out.nontriv(_abs_key(e))
                _rnd_stats(e["doc"], e["text"], stats)
                if i < 2:
                    out.sample({"text": "".join(chr(c) for c in e["text"]), "views": e["views"][:1]}, limit=5)
        out.extra["random_document_stats"] = stats
        out.rule = ("every REPLAY case of MC_Attr (literal x declared type x default kind x written x ATTLIST "
                    "layout) is parsed in the raw and the text-expanded view and Attr::name/value/specified of "
                    "every entry of attributes(), attributes().length(), Element::get_attribute of every "
                    "written/declared name and, on the text-expanded document, xml_xpath::query count(@*) and "
                    "string(@name) are compared with AttrNorm.Effective; a case is non-trivial if its "
                    "literal contains a reference or white space or the attribute is not written (defaulting); "
                    "every random document counts as non-trivial (distinct texts)")
        bounds = {"quick": (3, 2), "thorough": (4, 3)}[tier]
        out.assumptions = [
            "literals of <= %d items over 15 item kinds (a, space, TAB, LF, CR, &#32; &#9; &#10; &#13; &#65; "
            "&lt; &amp; &e1; &e2; &e3;); the full matrix of 5 declared types + undeclared x 4 default kinds x "
            "written x 3 ATTLIST layouts for literals of <= %d items, a reduced matrix (CDATA/NMTOKENS, "
            "written #IMPLIED / defaulted) above" % bounds,
            "random documents: <= 5 entities (nesting depth <= 5), <= 4 ATTLISTs, <= 3 elements, <= 4 written "
            "attributes of <= 12 items each, all 10 attribute types",
            "entity values that build references out of character references (&#38;) and parameter entities "
            "are outside the modelled profile; validity constraints are not checked (non-validating processor)",
            "%d cases judged by TLC (Trace_Attr.tla): every case that is not literally the expectation, the "
            "first %d fast-path cases and all %d random documents; %d cases accepted by the fast path only "
            "(exact equality with the expectation computed by TLC in MC_Attr)"
            % (nev, min(FAST_SAMPLE, total), nrnd, fast_only),
        ]
        out.extra["mc_cases"] = total
        out.extra["random_documents"] = nrnd
        out.extra["judged_by_tlc"] = nev
        out.extra["fast_path_only"] = fast_only
        out.extra["tlc_wall_s"] = {"mc": round(mc.wall, 1), "trace": round(res.wall, 1)}
        return out.finish()
    finally:
        C.cleanup(wd)


def replay(prop, path):
    """Re-run the stored case against the current tree."""
    out = C.Outcome(prop, "quick")
    wd = C.workdir("c11r")
    saved = C.REPLAYS
    C.REPLAYS = os.path.join(saved, "replayed")     # do not clobber the stored cases of the last run
    try:
        v = json.load(open(path))
        case = v.get("case", v)
        if "text" not in case:
            raise C.ToolError("stored case has no text: " + path)
        inp = os.path.join(wd, "r.in")
        with open(inp, "w") as f:
            f.write(json.dumps(case) + "\n")
        trace = os.path.join(wd, "r.trace")
        C.run_harness(["doc-attr-observe", "--in", inp, "--out", trace])
        _validate(out, trace, "c11rv")
        out.traces = 1
        out.evaluations = 1
        out.nontrivial_count = 1
        out.sample({"text": "".join(chr(c) for c in case["text"])})
        out.rule = "replay of one stored case"
        return out.finish()
    finally:
        C.REPLAYS = saved
        C.cleanup(wd)
