#!/usr/bin/env python3
"""Development aid (not a registered command): sensitivity of the XPath checks.

Applies every /verif/mutants/xp-<prop>-*.patch to a SCRATCH COPY of /repo (under /verif/work, so the shared
/repo working tree is never disturbed), builds a scratch harness against that copy and runs the owning check
(quick tier); the check must exit 1 (VIOLATION).  Evidence/replay files of these runs go to the scratch dir.

    python3 lib/xp_mutants.py [substring-of-patch-name ...]
"""
import glob
import os
import shutil
import subprocess
import sys
import time

HERE = os.path.dirname(os.path.abspath(__file__))
sys.path.insert(0, HERE)
import common as C  # noqa: E402


def main(argv):
    pats = argv[1:]
    scratch = C.workdir("xpmut")
    repo = os.path.join(scratch, "repo")
    harness = os.path.join(scratch, "harness")
    subprocess.run(["rsync", "-a", "--exclude", "target", "--exclude", ".git", "/repo/", repo + "/"], check=True)
    subprocess.run(["rsync", "-a", "--exclude", "target", C.HARNESS_DIR + "/", harness + "/"], check=True)
    toml = open(os.path.join(harness, "Cargo.toml")).read().replace('"/repo/', '"%s/' % repo)
    open(os.path.join(harness, "Cargo.toml"), "w").write(toml)
    C.HARNESS_DIR = harness
    C.HARNESS = os.path.join(harness, "target", "release", "xmlrs-verif-harness")
    C.REPO = repo
    C.EVIDENCE = os.path.join(scratch, "evidence")
    C.REPLAYS = os.path.join(scratch, "replays")
    os.environ.setdefault("VERIF_XP_FAST", "1")
    import xp
    results = []
    # baseline: the unmutated copy must pass (otherwise a VIOLATION proves nothing)
    patches = sorted(glob.glob(os.path.join(C.VERIF, "mutants", "xp-*.patch")))
    patches = [p for p in patches if not pats or any(s in os.path.basename(p) for s in pats)]
    props = sorted({os.path.basename(p).split("-")[1].upper() for p in patches})
    C.build_harness()
    for prop in props:
        rc = xp.run(prop, "quick")
        results.append(("baseline", prop, rc, "pass" if rc == 0 else "BASELINE NOT CLEAN"))
    for p in patches:
        name = os.path.basename(p)
        prop = name.split("-")[1].upper()
        t0 = time.time()
        r = subprocess.run(["patch", "-p1", "-s", "-d", repo, "-i", p])
        if r.returncode != 0:
            results.append((name, prop, None, "patch does not apply"))
            continue
        try:
            C.build_harness()
            rc = xp.run(prop, "quick")
        except C.ToolError as e:
            rc = "tool error: %s" % e
        finally:
            subprocess.run(["patch", "-p1", "-s", "-R", "-d", repo, "-i", p], check=True)
        results.append((name, prop, rc, "caught" if rc == 1 else "NOT CAUGHT"))
        print("MUTANT %s -> %s (%.0fs)" % (name, results[-1][3], time.time() - t0), flush=True)
    print("\n== summary")
    for name, prop, rc, verdict in results:
        print("%-45s %s exit=%s %s" % (name, prop, rc, verdict))
    if not os.environ.get("VERIF_KEEP"):
        shutil.rmtree(scratch, ignore_errors=True)
    return 0 if all(v in ("caught", "pass") for _, _, _, v in results) else 1


if __name__ == "__main__":
    sys.exit(main(sys.argv))
