"""C17 - xe rewrites exactly the selected nodes; xq prints exactly the selection.

spec -> impl: MC_Cli.tla enumerates every (document, expression, fragment) triple of CliPool.tla, checks the
              design-level properties of Cli.tla (identity on an empty selection, the outer of two nested
              selected nodes wins, usable runs select containers only) and prints one REPLAY line per run with the
              expected value (xq) / expected document text and usability class (xe).
              harness `cli-run` executes the real binaries (xpath/examples/xq.rs, xe.rs built from /repo's working
              tree) twice per case (--no-indent and indented).
impl -> spec: every run is an event judged by Trace_Cli.tla, which re-computes selection, usability and the
              expected document from the pools.
"""
import json
import os
import re
import subprocess

import common as C

BIN_DIR = os.path.join(C.HARNESS_DIR, "target", "repo")


def build_tools():
    env = dict(os.environ)
    env["CARGO_NET_OFFLINE"] = "true"
    p = subprocess.run(["cargo", "build", "--offline", "--quiet", "--examples", "-p", "xml-xpath",
                        "--target-dir", BIN_DIR], cwd=C.REPO, env=env, stdout=subprocess.PIPE,
                       stderr=subprocess.STDOUT, text=True)
    if p.returncode != 0:
        C.log(p.stdout[-3000:])
        raise C.ToolError("cannot build xq/xe from /repo")
    return (os.path.join(BIN_DIR, "debug", "examples", "xq"), os.path.join(BIN_DIR, "debug", "examples", "xe"))


def _validate(out, trace, tag):
    n = C.count_lines(trace)
    cfgname = "Trace_Cli.%d.cfg" % os.getpid()
    cfg = os.path.join(C.SPEC, cfgname)
    C.write_cfg(cfg, ["SPECIFICATION Spec", "CONSTANT Dev = {}", "CONSTANT Open = %s" % C.tla_set(out.open.keys()),
                      "POSTCONDITION Done", "CHECK_DEADLOCK FALSE"])
    try:
        res = C.run_tlc("Trace_Cli", cfgname, tag, env={"TRACE": trace}, workers=1, deque=True, timeout=3000,
                        xmx="8g")
    finally:
        os.unlink(cfg)
    C.tlc_must_pass(res, "Trace_Cli")
    for t, v in res.lines:
        if t == "TRUNCATED":
            raise C.ToolError("trace validation consumed only part of the trace: %s" % (v,))
    if res.distinct != n + 1:
        raise C.ToolError("trace validation visited %d states for %d events" % (res.distinct, n))
    events = C.read_ndjson(trace)
    for t, v in res.lines:
        if t == "VERDICT":
            out.verdict(v, events[v["i"] - 1])
    return events


def _cases(path):
    import re
    cases = {}
    for line in open(path):
        if line.startswith('<<"REPLAY"'):
            m = re.match(r'<<"REPLAY", (.*)>>\s*$', line)
            c = json.loads(json.loads(m.group(1)))
            cases[(c["di"], c["ei"], c["fi"])] = c
    return cases


def _args_pass(out, tier, wd, xq, xe):
    """command lines: CliArgs.tla (a scanner over option tokens) -> every command line up to MaxLen tokens for both
    tools through the real binaries -> Trace_CliArgs.tla"""
    dump = os.path.join(wd, "args.replay")
    mc = C.run_tlc("MC_CliArgs", "MC_CliArgs_%s.cfg" % tier, "argsmc", to_file=dump, workers=4, timeout=1500,
                   keep_tags=["REPLAY"])
    C.tlc_must_pass(mc, "MC_CliArgs")
    out.add_tlc(mc)
    trace = os.path.join(wd, "args.trace")
    so = C.run_harness(["cli-args", "--in", dump, "--out", trace, "--xq", xq, "--xe", xe, "--jobs", "8",
                        "--docfile", os.path.join(wd, "doc.xml")], timeout=3000)
    st = json.loads(so.strip().splitlines()[-1])
    n = C.count_lines(trace)
    if n == 0 or n != st["runs"]:
        raise C.ToolError("no command-line runs")
    res = C.run_tlc("Trace_CliArgs", "Trace_CliArgs.cfg", "argstv", env={"TRACE": trace}, workers=1, deque=True,
                    timeout=1500, xmx="4g")
    C.tlc_must_pass(res, "Trace_CliArgs")
    if res.distinct != n + 1:
        raise C.ToolError("trace validation visited %d states for %d events" % (res.distinct, n))
    events = C.read_ndjson(trace)
    for t, v in res.lines:
        if t == "TRUNCATED":
            raise C.ToolError("trace validation consumed only part of the trace")
        if t == "VERDICT" and v.get("verdict") != "ok":
            out.verdict(v, events[v["i"] - 1])
    outcomes = {}
    for line in open(dump):
        if line.startswith('<<"REPLAY"'):
            c = json.loads(json.loads(re.match(r'<<"REPLAY", (.*)>>\s*$', line).group(1)))
            key = c["tool"] + ":" + c["outcome"]
            outcomes[key] = outcomes.get(key, 0) + 1
    for k in ("xq:run", "xq:refuse", "xe:run", "xe:refuse"):
        if not outcomes.get(k):
            raise C.ToolError("the command-line model never prescribes %s (vacuous)" % k)
    out.extra["command_lines"] = outcomes
    out.traces_extra = n
    for e in events:
        out.nontriv(["args", e["tool"], " ".join(e["toks"])])
    os.unlink(trace)
    os.unlink(dump)


def run(prop, tier, only=None):
    out = C.Outcome(prop, tier)
    if only is not None:
        out.no_evidence = True
    wd = C.workdir("cli")
    try:
        xq, xe = build_tools()
        dump = os.path.join(wd, "cli.replay")
        mc = C.run_tlc("MC_Cli", "MC_Cli.cfg", "climc", to_file=dump, workers=8, timeout=3000, keep_tags=["REPLAY"])
        C.tlc_must_pass(mc, "MC_Cli")
        out.add_tlc(mc)
        if only is not None:
            keep = [l for l in open(dump) if ('\\"di\\":%d,' % only[0]) in l and ('\\"ei\\":%d,' % only[1]) in l
                    and ('\\"fi\\":%d,' % only[2]) in l]
            with open(dump, "w") as f:
                f.writelines(keep)
        trace = os.path.join(wd, "cli.trace")
        so = C.run_harness(["cli-run", "--in", dump, "--out", trace, "--xq", xq, "--xe", xe, "--jobs", "8"],
                           timeout=3000)
        st = json.loads(so.strip().splitlines()[-1])
        events = _validate(out, trace, "clitv")
        if only is None:
            _args_pass(out, tier, wd, xq, xe)
        out.traces = len(events) + getattr(out, "traces_extra", 0)
        out.evaluations = st["runs"] + getattr(out, "traces_extra", 0)
        s = lambda a: "".join(chr(x) for x in a)
        cases = _cases(dump)
        for e in events:
            c = cases.get((e["di"], e["ei"], e["fi"]), {})
            if e["event"] == "xe":
                # non-trivial: the run selects something or must be refused
                if c.get("usable") != "yes" or c.get("expect") != c.get("text"):
                    out.nontriv([e["di"], e["ei"], e["fi"], e["indent"]])
            elif c.get("value", {}).get("v") not in ([], None) or c.get("value", {}).get("t") != "nodes":
                out.nontriv([e["di"], e["ei"], 0, e["indent"]])
        for key in sorted(cases)[:400:97]:
            c = cases[key]
            out.sample({"tool": c["k"], "doc": s(c["text"]), "xpath": s(c["expr"]), "value": s(c.get("frag", [])),
                        "usable": c.get("usable"), "expected": s(c["expect"]) if c["k"] == "xe" else c["value"]})
        nd = len({e["di"] for e in events})
        ne = len({e["ei"] for e in events})
        nf = len({e["fi"] for e in events if e["event"] == "xe"})
        out.rule = ("every (document, expression, fragment) triple of spec/CliPool.tla that RunsOn admits (%d documents incl. "
                    "merged text runs, DOCTYPE, prefixes and default namespaces, %d expressions incl. nested / empty / "
                    "scalar / erroneous selections and long flat chains, %d replacement fragments incl. ill-formed, "
                    "prefixed and unsupported ones) run through the real xq and xe binaries, compact and indented; a run "
                    "is non-trivial if it selects something or must be refused" % (nd, ne, nf))
        out.assumptions = [
            "the expected document is given as text by the specification and compared after parsing both it and "
            "xe's compact output with the library (merged view): a parser defect common to both sides is C01's business",
            "indented output: only exit status and well-formedness are judged (the pretty printer changes white space)",
            "xq node output is compared with the library's own Display of exactly the nodes the specification selects",
            "command lines: every command line of up to %d scanner items (option with value, flag, file path, dangling or misplaced option word) for both tools (CliArgs.tla, MC_CliArgs.tla); the --setns forms "
            "of the README (xmlns:<prefix>=<uri>, repeated, re-bound) and three malformed ones; a default-namespace "
            "binding (xmlns=<uri>) is not exercised" % 3,
        ]
        return out.finish()
    finally:
        C.cleanup(wd)


def replay(prop, path):
    v = json.load(open(path))
    case = v.get("case", v)
    if "toks" in case:
        # a command line of the CliArgs model: the whole (small) pass is repeated
        out = C.Outcome(prop, "quick")
        out.no_evidence = True
        wd = C.workdir("cliargs")
        try:
            xq, xe = build_tools()
            _args_pass(out, "quick", wd, xq, xe)
            out.traces = out.evaluations = getattr(out, "traces_extra", 0)
            out.rule = "replay: every command line of the quick bound"
            return out.finish()
        finally:
            C.cleanup(wd)
    return run(prop, "quick", only=(case["di"], case["ei"], case["fi"]))
