"""C06 - XPath parsing and evaluation are total: XPathCost.tla (Call -> Return | Error, no crash action; hostile
families with a polynomial time bound), MC_XPathCost.tla (families x sizes, unsupported constructs, steps that
select nothing) + every spelling of a MC_XPath run + seeded garbage -> `xp-total` runs each expression through
xml_xpath::query in a child process (ok/err/panic/abort/timeout) -> Trace_XPathCost.tla judges."""
import json
import os

import common as C
import xp

TIERS = {
    "quick": dict(cfg="MC_XPathCost_quick.cfg", xpcfg="MC_XPath_tiny.cfg", sccfg="MC_Scalar_quick.cfg", garbage=40000, sample=400, timeout=900),
    "thorough": dict(cfg="MC_XPathCost_thorough.cfg", xpcfg="MC_XPath_quick.cfg", sccfg="MC_Scalar_thorough.cfg", garbage=1000000, sample=5000, timeout=3000),
}


def _validate(out, trace, tag, timeout=3000):
    cfgname = "Trace_XPathCost.%d.cfg" % os.getpid()
    cfg = os.path.join(C.SPEC, cfgname)
    C.write_cfg(cfg, ["SPECIFICATION Spec", "CONSTANT Open = %s" % C.tla_set(out.open.keys()),
                      "POSTCONDITION Done", "CHECK_DEADLOCK FALSE"])
    try:
        res = C.run_tlc("Trace_XPathCost", cfgname, tag, env={"TRACE": trace}, workers=1, deque=True, timeout=timeout)
    finally:
        os.unlink(cfg)
    C.tlc_must_pass(res, "Trace_XPathCost")
    n = C.count_lines(trace)
    for tag_, v in res.lines:
        if tag_ == "TRUNCATED":
            raise C.ToolError("trace validation consumed only part of the trace: %s" % (v,))
    if res.distinct != n + 1:
        raise C.ToolError("trace validation visited %d states for %d events" % (res.distinct, n))
    events = C.read_ndjson(trace)
    for tag_, v in res.lines:
        if tag_ == "VERDICT":
            ev = events[v["i"] - 1]
            if isinstance(v.get("spelling"), list):
                v["spelling_text"] = xp.cps(v["spelling"])[:200]
                v["spelling"] = v["spelling"][:400]
            v["document"] = xp.cps(ev.get("doc", []))
            ev = dict(ev)
            out.verdict(v, ev)
    return res, events


def _run_total(wd, args, timeout=3600):
    """xp-total re-executes its own binary for every worker process; it runs from a private copy so that a
    rebuild of the harness by another check cannot pull the executable away in the middle of a run."""
    import shutil
    import subprocess
    exe = os.path.join(wd, "xp-harness")
    shutil.copy2(C.HARNESS, exe)
    p = subprocess.run([exe] + args, stdout=subprocess.PIPE, stderr=subprocess.PIPE, text=True, timeout=timeout)
    if p.returncode != 0:
        C.log(p.stderr[-2000:])
        raise C.ToolError("harness %s exited %d" % (args[0], p.returncode))


def run(prop, tier):
    t = TIERS[tier]
    out = C.Outcome(prop, tier)
    out.level = "exploration"
    wd = C.workdir("xptot")
    try:
        cases = os.path.join(wd, "cost.replay")
        mc = C.run_tlc("MC_XPathCost", t["cfg"], "xpcostmc", to_file=cases, workers=4, timeout=t["timeout"],
                       keep_tags=["REPLAY"])
        C.tlc_must_pass(mc, "MC_XPathCost")
        out.add_tlc(mc)
        # every spelling of a MC_XPath run counts here too
        xpr = os.path.join(wd, "xp.replay")
        mc2 = C.run_tlc("MC_XPath", t["xpcfg"], "xpcostmc2", to_file=xpr, workers=8, timeout=t["timeout"],
                        keep_tags=["REPLAY", "DOC"])
        C.tlc_must_pass(mc2, "MC_XPath")
        out.add_tlc(mc2)
        with open(cases, "a") as f, open(xpr) as g:
            for line in g:
                f.write(line)
        # ... and every application of a core function / operator of MC_Scalar (out-of-range and ill-typed arguments):
        # its own document, renumbered so that it cannot be mistaken for one of MC_XPath's
        scr = os.path.join(wd, "sc.replay")
        mc3 = C.run_tlc("MC_Scalar", t["sccfg"], "xpcostmc3", to_file=scr, workers=8, timeout=t["timeout"],
                        keep_tags=["REPLAY", "DOC"])
        C.tlc_must_pass(mc3, "MC_Scalar")
        out.add_tlc(mc3)
        n_scalar = 0
        with open(cases, "a") as f:
            for want in ("doc", "xp"):
                with open(scr) as g:
                    for line in g:
                        u = C._unwrap(line.rstrip("\n"))
                        if not u:
                            continue
                        e = u[1]
                        if e.get("k") != want:
                            continue
                        e["doc"] = 1000 + e["doc"]
                        if want == "xp":
                            e = {"k": "xp", "doc": e["doc"], "sp": e["sp"][:1]}
                            n_scalar += 1
                        f.write('<<"REPLAY", %s>>\n' % json.dumps(json.dumps(e)))
        os.unlink(scr)
        if n_scalar == 0:
            raise C.ToolError("MC_Scalar emitted no case")
        out.extra["scalar_applications"] = n_scalar
        trace = os.path.join(wd, "cost.trace")
        stats_p = os.path.join(wd, "cost.stats")
        _run_total(wd, ["xp-total", "--in", cases, "--trace", trace, "--stats", stats_p, "--garbage", str(t["garbage"]),
                        "--seed", str(C.seed()), "--sample", str(t["sample"]), "--workers", "6"], timeout=t["timeout"])
        stats = json.load(open(stats_p))
        if stats["calls"] == 0:
            raise C.ToolError("no calls")
        res, events = _validate(out, trace, "xpcosttv", timeout=t["timeout"])
        out.traces = len(events)
        out.evaluations = stats["calls"]
        out.nontrivial_count = stats["outcomes"].get("ok", 0)
        for s in stats["samples"]:
            out.sample(s)
        out.extra["calls_in_child_process"] = stats["calls"]
        out.extra["outcomes"] = stats["outcomes"]
        out.extra["families"] = stats["families"]
        out.extra["max_ms"] = stats["max_ms"]
        out.extra["events_judged_by_tlc"] = len(events)
        out.rule = ("one evaluation = one call of xml_xpath::query in a child process with a 15 s wall-clock limit; non-trivial = the "
                    "call returned a value (the rest returned an error)")
        out.assumptions = [
            "families parens/parenpath/preds/steps/dsteps/unions/minus/deeppred/selfpred/args/ors/filters/updown/updownaxes/"
            "deepdsteps (a chain of 24 elements) for n <= 40 exhaustively chosen sizes plus deep members (n up to 3000 quick / "
            "20000 thorough); prologaxes: every axis from 8 kinds of context node of a document with prolog comment, DOCTYPE, PI "
            "and epilog; 58 named constructs (unsupported features, node-type tests with a literal, steps that select nothing, "
            "ill-typed and out-of-range arguments) on 4 documents; every application of MC_Scalar (first spelling)",
            "garbage: seeded strings of <= 12 tokens over a 66-token XPath alphabet and single edits of valid spellings",
            "time is the CPU time of the call in the child (no tick hook in /repo; 10 ms resolution), the wall-clock limit "
            "of a call is 15 s: the bound MaxMs(F, n) = 1000 + n^2 ms only separates polynomial from exponential "
            "behaviour; a call slower than 1 s is always judged by TLC",
            "only calls that are not trivially fine (outcome ok/err within 1 s) and a sample of the others are judged by "
            "Trace_XPathCost.tla; family members and named constructs are always judged",
        ]
        xp._summary(out)
        return out.finish()
    finally:
        C.cleanup(wd)


def replay(prop, path):
    out = C.Outcome(prop, "quick")
    out.no_evidence = True
    out.level = "exploration"
    wd = C.workdir("xptotr")
    try:
        v = json.load(open(path))
        case = v.get("case", v)
        inp = os.path.join(wd, "r.in")
        trace = os.path.join(wd, "r.trace")
        with open(inp, "w") as f:
            f.write(json.dumps({"k": "call", "fam": case["fam"], "n": case["n"], "allow": case["allow"],
                                "maxms": case["maxms"], "doc": case["doc"], "expr": case["expr"]}) + "\n")
        _run_total(wd, ["xp-total", "--in", inp, "--trace", trace, "--stats", os.path.join(wd, "s"), "--workers", "1"])
        _validate(out, trace, "xpcostrv")
        out.traces = 1
        out.evaluations = 1
        out.nontrivial_count = 1
        out.sample({"expr": xp.cps(case["expr"])[:200]})
        out.rule = "replay of one stored call"
        return out.finish()
    finally:
        C.cleanup(wd)
