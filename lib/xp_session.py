"""C19 - determinism and absence of side effects: XPathSession.tla (context stacks as a state machine),
MC_Session.tla (all sessions <= MaxLen over 12 queries; StacksEmptyAtRest, ResultIsFunctionOfQuery) -> every
complete session replayed on ONE real Context and ONE real document (`xp-session`); random sessions on random
documents; Trace_Session.tla judges."""
import json
import os

import common as C
import xp

TIERS = {
    "quick": dict(cfg="MC_Session_quick.cfg", sample=25, rnd=250, timeout=900),
    "thorough": dict(cfg="MC_Session_thorough.cfg", sample=100, rnd=4000, timeout=3000),
}


def _validate(out, trace, tag, timeout=3000):
    return xp.validate(out, "Trace_Session", {"Dev": "{}"}, trace, tag, timeout=timeout)


def run(prop, tier):
    t = TIERS[tier]
    out = C.Outcome(prop, tier)
    wd = C.workdir("xpss")
    try:
        replay = os.path.join(wd, "ss.replay")
        mc = C.run_tlc("MC_Session", t["cfg"], "xpssmc", to_file=replay, workers=8, timeout=t["timeout"],
                       keep_tags=["REPLAY", "DOC"])
        C.tlc_must_pass(mc, "MC_Session")
        out.add_tlc(mc)
        if tier == "thorough":
            # anti-vacuity: with the leaky Fail action TLC must refute the invariants
            leaky = C.run_tlc("MC_Session", "MC_Session_leaky.cfg", "xpssleaky", workers=4, timeout=600)
            if leaky.ok or leaky.returncode != 12:      # TLC exit status 12: a safety property is violated
                raise C.ToolError("MC_Session with Leaky = TRUE did not violate the invariants (vacuous model?)")
            out.extra["leaky_model_refuted"] = True
        trace = os.path.join(wd, "ss.trace")
        stats_p = os.path.join(wd, "ss.stats")
        C.run_harness(["xp-session", "--in", replay, "--trace", trace, "--stats", stats_p, "--sample", str(t["sample"])])
        stats = json.load(open(stats_p))
        if stats["sessions"] == 0:
            raise C.ToolError("no sessions")
        rnd = os.path.join(wd, "ss.rnd")
        C.run_harness_watched(["xp-session", "--random", str(t["rnd"]), "--seed", str(C.seed()), "--trace", rnd], rnd)
        with open(trace, "a") as f, open(rnd) as g:
            for line in g:
                f.write(line)
        res, events = _validate(out, trace, "xpsstv", timeout=t["timeout"])
        # parse sessions: the outcome of parsing a text must not depend on what the same thread parsed before
        psr = os.path.join(wd, "ps.replay")
        psmc = C.run_tlc("MC_ParseSession", "MC_ParseSession_%s.cfg" % tier, "psmc", to_file=psr, workers=4,
                         timeout=900, keep_tags=["REPLAY"])
        C.tlc_must_pass(psmc, "MC_ParseSession")
        out.add_tlc(psmc)
        pst = os.path.join(wd, "ps.trace")
        so = C.run_harness(["ps-run", "--in", psr, "--out", pst, "--repeat", "2" if tier == "quick" else "3"])
        pstats = json.loads(so.strip().splitlines()[-1])
        cfgname = "Trace_ParseSession.%d.cfg" % os.getpid()
        cfgp = os.path.join(C.SPEC, cfgname)
        C.write_cfg(cfgp, ["SPECIFICATION TSpec", "CONSTANT Texts = {1, 2, 3, 4, 5, 6}", "CONSTANT MaxLen = 4",
                           "CONSTANT Open = %s" % C.tla_set(out.open.keys()), "POSTCONDITION Done", "CHECK_DEADLOCK FALSE"])
        try:
            r2 = C.run_tlc("Trace_ParseSession", cfgname, "pstv", env={"TRACE": pst}, workers=1, deque=True, timeout=900)
        finally:
            os.unlink(cfgp)
        C.tlc_must_pass(r2, "Trace_ParseSession")
        if r2.distinct != C.count_lines(pst):
            raise C.ToolError("parse-session validation visited %d states for %d lines" % (r2.distinct, C.count_lines(pst)))
        ps_events = None
        for tg, v in r2.lines:
            if tg == "TRUNCATED":
                raise C.ToolError("parse-session validation truncated")
            if tg == "VERDICT":
                if ps_events is None:
                    ps_events = C.read_ndjson(pst)
                ev = ps_events[v["i"] - 1]
                out.verdict(v, {"event": "session", "texts": ev["texts"], "ok": [o["ok"] for o in ev["outcomes"]]})
        out.extra["parse_sessions"] = pstats["sessions"]
        out.extra["parses_in_sessions"] = pstats["parses"]
        # query sessions (QuerySession.tla): one parsed document and one context (or a fresh context per call), a series
        # of queries; every answer and the serialization after every call are compared with the fresh ones
        qsr = os.path.join(wd, "qs.replay")
        qsmc = C.run_tlc("MC_QuerySession", "MC_QuerySession_%s.cfg" % tier, "qsmc", to_file=qsr, workers=4,
                         timeout=900, keep_tags=["REPLAY", "DOC"])
        C.tlc_must_pass(qsmc, "MC_QuerySession")
        out.add_tlc(qsmc)
        qst = os.path.join(wd, "qs.trace")
        so = C.run_harness(["qs-run", "--in", qsr, "--out", qst], timeout=3000)
        qstats = json.loads(so.strip().splitlines()[-1])
        if qstats["sessions"] == 0 or qstats["sessions"] != 2 * (C.count_lines(qsr) - qstats["docs"]):
            raise C.ToolError("qs-run: %s for %d replay lines" % (qstats, C.count_lines(qsr)))
        cfgname = "Trace_QuerySession.%d.cfg" % os.getpid()
        cfgp = os.path.join(C.SPEC, cfgname)
        C.write_cfg(cfgp, ["SPECIFICATION TSpec", "CONSTANT Open = %s" % C.tla_set(out.open.keys()), "POSTCONDITION Done",
                           "CHECK_DEADLOCK FALSE"])
        try:
            r3 = C.run_tlc("Trace_QuerySession", cfgname, "qstv", env={"TRACE": qst}, workers=1, deque=True, timeout=3000,
                           xmx="6g")
        finally:
            os.unlink(cfgp)
        C.tlc_must_pass(r3, "Trace_QuerySession")
        if r3.distinct != C.count_lines(qst) + 1:
            raise C.ToolError("query-session validation visited %d states for %d lines" % (r3.distinct, C.count_lines(qst)))
        qs_events = None
        for tg, v in r3.lines:
            if tg == "TRUNCATED":
                raise C.ToolError("query-session validation truncated")
            if tg == "VERDICT":
                if str(v.get("verdict", "")).startswith("TOOL-"):
                    raise C.ToolError("%s on line %d of the query-session trace" % (v["verdict"], v["i"]))
                if qs_events is None:
                    qs_events = C.read_ndjson(qst)
                ev = qs_events[v["i"] - 1]
                out.verdict(v, {"event": "qsession", "d": ev["d"], "variant": ev["variant"], "qs": ev["qs"], "answers": ev["answers"]})
        out.extra["query_sessions"] = qstats["sessions"]
        out.extra["queries_in_query_sessions"] = qstats["queries"]
        rq = sum(len(e.get("qs", [])) for e in events if e.get("fam") != "mc")
        out.traces = stats["sessions"] + t["rnd"] + pstats["sessions"] + qstats["sessions"]
        out.evaluations = 2 * stats["queries"] + 2 * sum(len(e.get("qs", [])) for e in C.read_ndjson(rnd)) + qstats["queries"]
        out.nontrivial_count = stats["sessions"] + t["rnd"]
        for s in stats["samples"]:
            out.sample(s)
        out.extra["sessions_replayed"] = stats["sessions"]
        out.extra["sessions_ok_fast_path"] = stats["fast_ok"]
        out.extra["random_sessions"] = t["rnd"]
        out.extra["events_judged_by_tlc"] = len(events)
        out.rule = ("one trace = one session (a series of succeeding and failing queries on one Context and one "
                    "document); every session has >= 2 queries, each evaluated on the shared and on a fresh context")
        out.assumptions = [
            "MC_Session: 1 document (11 nodes), 12 queries (6 succeeding with 0-2 nested predicates, top-level "
            "position()/last(); 6 failing: unknown function at depth 1-3, unbound prefix in a nested predicate, "
            "count(1) in a filter predicate, failing second predicate), all sessions of length MaxLen (3 quick / 4 thorough)",
            "random sessions: length 2-12 over 10 queries per random document (<= 30 nodes)",
            "the stacks of Context are private: their observable image is get_position()/get_size() (the tops)",
            "the value of position()/last() at the top level of a query on an empty context is 0 (Context::default())",
            "parse sessions (ParseSession.tla): every series of 3 (thorough 4) texts out of 6 (well-formed, nested 128 and 140 "
            "deep, ill-formed, duplicate entity declarations used in a default, entities and defaults), each series in one "
            "thread, 2-3 times; outcome (accepted? serialization) compared with the text's outcome in a fresh thread",
            "query sessions (QuerySession.tla): 4 documents (ATTLISTs for a:x and b:x with different defaults and types; unions, "
            "parents of attributes, filters, failing predicates; prolog comment + DOCTYPE + entity; default namespace, prefix, "
            "undeclaration) x every series of 3 (thorough 4) of their 11-12 queries, on one parse with one shared context and on "
            "one parse with a fresh context per call; answers (node-sets as structural paths) and the serialization after "
            "every call compared with those of a fresh parse + fresh context",
        ]
        xp._summary(out)
        return out.finish()
    finally:
        C.cleanup(wd)


def replay(prop, path):
    out = C.Outcome(prop, "quick")
    out.no_evidence = True
    wd = C.workdir("xpssr")
    try:
        v = json.load(open(path))
        case = v.get("case", v)
        inp = os.path.join(wd, "r.in")
        trace = os.path.join(wd, "r.trace")
        with open(inp, "w") as f:
            f.write(json.dumps({"k": "sdoc", "tree": case["tree"], "text": case["text"], "binds": case.get("binds", []),
                                "asts": case["asts"], "exprs": case["exprs"]}) + "\n")
            f.write(json.dumps({"k": "session", "qs": case["qs"], "exp": [{"t": "replay"}] * len(case["qs"])}) + "\n")
        C.run_harness(["xp-session", "--in", inp, "--trace", trace, "--stats", os.path.join(wd, "s"), "--sample", "1"])
        _validate(out, trace, "xpssrv")
        out.traces = 1
        out.evaluations = 2 * len(case["qs"])
        out.nontrivial_count = 1
        out.sample({"document": xp.cps(case["text"]), "queries": [xp.cps(case["exprs"][q - 1]) for q in case["qs"]]})
        out.rule = "replay of one stored session"
        return out.finish()
    finally:
        C.cleanup(wd)
