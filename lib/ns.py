"""C10 - namespaces resolve per Namespaces in XML; name tests match expanded names.

spec -> impl: MC_Ns.tla enumerates declaration layouts (default / prefixed declarations, undeclaration, shadowing)
              over a two- (quick) or three-level (thorough) element tree, checks that the recursive scope and the
              declarative nearest-declaration definitions of Namespaces.tla agree and that consistent renaming of
              document prefixes or of caller prefixes changes no selection, and prints one REPLAY line per document.
              harness `ns-run` parses each document (and its renamed twin), reads every element's expanded name
              and in-scope namespaces through the public API and evaluates nine name tests under two caller bindings.
impl -> spec: Trace_Ns.tla re-computes scope, expanded names and selections from the logged ns tree and judges.
"""
import json
import os

import common as C


def run(prop, tier, single=None):
    out = C.Outcome(prop, tier)
    wd = C.workdir("ns")
    try:
        dump = os.path.join(wd, "ns.replay")
        mc = C.run_tlc("MC_Ns", "MC_Ns_%s.cfg" % tier, "nsmc", to_file=dump, workers=8, timeout=3000,
                       keep_tags=["REPLAY"])
        C.tlc_must_pass(mc, "MC_Ns")
        out.add_tlc(mc)
        if single is not None:
            out.no_evidence = True
            want = json.dumps(single, separators=(",", ":"))
            keep = [l for l in open(dump) if want.replace('"', '\\"') in l]
            with open(dump, "w") as f:
                f.writelines(keep)
        trace = os.path.join(wd, "ns.trace")
        import cli
        xq, _xe = cli.build_tools()
        so = C.run_harness(["ns-run", "--in", dump, "--out", trace, "--xq", xq,
                            "--xq-every", "1" if single is not None else ("80" if tier == "quick" else "400")]
                           + (["--all"] if single is not None else []), timeout=3000)
        st = json.loads(so.strip().splitlines()[-1])
        n = C.count_lines(trace)
        cfgname = "Trace_Ns.%d.cfg" % os.getpid()
        cfg = os.path.join(C.SPEC, cfgname)
        C.write_cfg(cfg, ["SPECIFICATION Spec", "CONSTANT Dev = {}", "CONSTANT Open = %s" % C.tla_set(out.open.keys()),
                          "POSTCONDITION Done", "CHECK_DEADLOCK FALSE"])
        try:
            res = C.run_tlc("Trace_Ns", cfgname, "nstv", env={"TRACE": trace}, workers=1, deque=True, timeout=3000,
                            xmx="8g")
        finally:
            os.unlink(cfg)
        C.tlc_must_pass(res, "Trace_Ns")
        for t, v in res.lines:
            if t == "TRUNCATED":
                raise C.ToolError("trace validation consumed only part of the trace: %s" % (v,))
        if res.distinct != n + 1:
            raise C.ToolError("trace validation visited %d states for %d events" % (res.distinct, n))
        events = C.read_ndjson(trace)
        for t, v in res.lines:
            if t == "VERDICT":
                out.verdict(v, events[v["i"] - 1])
        out.traces = n
        # every document is evaluated in full by the harness fast path (equality with the REPLAY expectation);
        # all non-ideal ones and every 10th ideal one are judged by TLC
        out.evaluations = st["docs"] * (2 * 9 * 2 + 3)
        out.nontrivial_count = st["docs"]
        s = lambda a: "".join(chr(x) for x in a)
        for e in events[:3]:
            out.sample({"document": s(e["text"]), "elements": [{"uri": s(x["uri"]), "prefix": s(x["pre"]),
                        "in_scope": sorted([s(p), s(u)] for p, u in x["scope"])} for x in e["elems"]]})
        out.extra.update({"documents": st["docs"], "ideal_by_fast_path": st["ideal"]})
        out.rule = ("every namespace-well-formed document of the bounded layout space (root variants x child variants "
                    "[x grandchild variants]); each is a distinct case and non-trivial (it has at least the xml "
                    "binding to inherit; nearly all declare, shadow or undeclare something)")
        out.assumptions = [
            "prefixes p, q; namespace names u1, u2; caller prefixes e, d; depth %d" % (2 if tier == "quick" else 3),
            "a caller-side default namespace is not exercised (XPath 1.0 has none)",
            "the identity of namespace nodes ACROSS elements (//namespace::*) is not compared: this crate gives an "
            "inherited namespace node the identity of its declaration; only per-element namespace axes are checked",
            "xq --setns xmlns:e=<uri> is run on every 80th (thorough: 400th) document for the 7 name tests under both bindings",
        ]
        return out.finish()
    finally:
        C.cleanup(wd)


def replay(prop, path):
    v = json.load(open(path))
    case = v.get("case", v)
    return run(prop, "quick", single=case.get("t"))
