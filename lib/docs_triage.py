#!/usr/bin/env python3
"""Development aid: summarise the observations of `doc-replay` that are not on the fast path."""
import collections
import json
import sys


def s(c):
    return "".join(chr(x) for x in c)


def main(path, n=60):
    ev = [json.loads(l) for l in open(path)]
    print(len(ev), "events;", sum(e["fast"] for e in ev), "fast")
    c = collections.Counter()
    ex = {}
    for e in ev:
        if e["fast"]:
            continue
        rt = e.get("rt", {})
        key = (e["wf"], tuple(e["viol"]), e["raw"]["parse"], e["raw"].get("rest"), e["merged"]["parse"],
               tuple(e["raw"].get("proj", {}).get("errs", [])[:1]),
               (rt.get("print"), rt.get("reparse"), rt.get("eq"), rt.get("projsame"), rt.get("fix")))
        c[key] += 1
        if key not in ex or len(e["text"]) < len(ex[key]):
            ex[key] = s(e["text"])
    for k, v in c.most_common(n):
        print(v, k, repr(ex[k]))


if __name__ == "__main__":
    main(sys.argv[1], int(sys.argv[2]) if len(sys.argv) > 2 else 60)
