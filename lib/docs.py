"""Documents engine: C01 C02 C04 (this file), C11 (docs_attr.py), C03 (docs_cost.py).

spec -> impl: MC_Doc.tla (writer over the token machine XmlDoc.tla, text by XmlSurface.tla; exhaustive up to
              a token bound from the empty document and from a fixed rich DTD, -simulate beyond; invariants:
              machine = recogniser fold, style independence and ill-formedness of bad renderings through the
              independent scanner XmlLex.tla, printer round trip XmlPrint.tla) emits REPLAY lines
              {toks, style, text, wf, viol, inprofile, tree}; harness `doc-replay` parses each text in the raw
              and merged DOM views and through the xml_info accessors, projects, prints / re-parses / re-prints.
impl -> spec: harness `doc-record` (seeded random token sequences, 1-2 token edits, deep nesting) and
              `doc-textedit` (1-2 character edits of well-formed renderings); what these are (well-formed or
              not, why, what they denote, how they are written) is decided by the specification: Trace_Doc.tla
              in render mode (Recognize + Render) resp. text mode (XmlLex + Recognize).
one judge:    every event that is not trivially ok (and a slice of those that are) goes to Trace_Doc.tla, which
              re-derives the expectation from the recorded tokens / text and names the verdict.
Development aids (decide nothing): docs_sanity.py (the SPEC against expat), docs_triage.py, docs_diff.py.
"""
import json
import os

import common as C

EXH = {  # exhaustive writer bounds per tier (Prefix "dtd": the behaviours that start after a fixed rich DTD)
    "quick": [
        dict(MaxTokens=4, MaxDepth=2, MaxBad=1, MaxTop=2, MaxDtd=2, MaxTrunc=2, Wide="FALSE", Prefix='"none"',
             NStylesGood=3, NStylesBad=2, NLexStyles=3),
        dict(MaxTokens=14, MaxDepth=2, MaxBad=1, MaxTop=2, MaxDtd=0, MaxTrunc=0, Wide="FALSE", Prefix='"dtd"',
             NStylesGood=2, NStylesBad=1, NLexStyles=2),
    ],
    "thorough": [
        dict(MaxTokens=5, MaxDepth=3, MaxBad=1, MaxTop=3, MaxDtd=3, MaxTrunc=3, Wide="FALSE", Prefix='"none"',
             NStylesGood=6, NStylesBad=2, NLexStyles=6),
        # every well-formed behaviour of up to 7 tokens (no bad action, short prolog / DTD)
        dict(MaxTokens=7, MaxDepth=3, MaxBad=0, MaxTop=1, MaxDtd=1, MaxTrunc=0, Wide="FALSE", Prefix='"none"',
             NStylesGood=2, NStylesBad=1, NLexStyles=2),
        dict(MaxTokens=15, MaxDepth=2, MaxBad=1, MaxTop=2, MaxDtd=0, MaxTrunc=0, Wide="FALSE", Prefix='"dtd"',
             NStylesGood=3, NStylesBad=1, NLexStyles=3),
    ],
}
SIM = {  # -simulate runs: (constants, number of behaviours PER WORKER (8 workers), depth)
    "quick": [
        (dict(MaxTokens=14, MaxDepth=3, MaxBad=0, MaxTop=3, MaxDtd=4, MaxTrunc=0, Wide="TRUE",
              Prefix='"none"', NStylesGood=3, NStylesBad=1, NLexStyles=3), 20, 16),
        (dict(MaxTokens=12, MaxDepth=3, MaxBad=2, MaxTop=3, MaxDtd=3, MaxTrunc=6, Wide="TRUE",
              Prefix='"none"', NStylesGood=1, NStylesBad=2, NLexStyles=2), 15, 14),
    ],
    "thorough": [
        (dict(MaxTokens=24, MaxDepth=4, MaxBad=0, MaxTop=4, MaxDtd=6, MaxTrunc=0, Wide="TRUE",
              Prefix='"none"', NStylesGood=6, NStylesBad=1, NLexStyles=6), 800, 26),
        (dict(MaxTokens=16, MaxDepth=3, MaxBad=2, MaxTop=3, MaxDtd=4, MaxTrunc=8, Wide="TRUE",
              Prefix='"none"', NStylesGood=1, NStylesBad=3, NLexStyles=3), 800, 18),
    ],
}
JUDGE_FAST_CAP = {"quick": 700, "thorough": 12000}   # fast-path events also judged by TLC


def _mc_cfg(path, consts):
    lines = ["SPECIFICATION Spec", "CONSTANTS"]
    for k, v in consts.items():
        lines.append(" %s = %s" % (k, v))
    lines += ["INVARIANT Inv", "CHECK_DEADLOCK FALSE"]
    C.write_cfg(path, lines)


LIGHT = [   # the C03 engine's quick tier only needs the texts: small bounds, no scanner invariant
    dict(MaxTokens=3, MaxDepth=2, MaxBad=1, MaxTop=2, MaxDtd=2, MaxTrunc=2, Wide="FALSE", Prefix='"none"',
         NStylesGood=2, NStylesBad=1, NLexStyles=0),
    dict(MaxTokens=13, MaxDepth=2, MaxBad=1, MaxTop=2, MaxDtd=0, MaxTrunc=0, Wide="FALSE", Prefix='"dtd"',
         NStylesGood=1, NStylesBad=1, NLexStyles=0),
]


def mc_cases(wd, tier, out=None, light=False, prop=None):
    """Run the writer (exhaustive + simulation); returns the path of the REPLAY file.
    Also used by the C03 engine (every C01/C02 input counts for totality)."""
    replay = os.path.join(wd, "docs.replay")
    jobs = []
    for k, consts in enumerate(LIGHT if light else EXH[tier]):
        jobs.append(("exhaustive%d" % k, consts, None, None))
    for k, (consts, num, depth) in enumerate([] if light else SIM[tier]):
        jobs.append(("simulate%d" % k, consts, num, depth))

    if prop == "C02":
        # runs without bad actions only produce well-formed documents: nothing C02 could judge
        jobs = [j for j in jobs if j[1]["MaxBad"] != 0]

    def one(job):
        name, consts, num, depth = job
        cfg = os.path.join(wd, "MC_Doc.%s.cfg" % name)       # generated cfgs live in the work directory
        _mc_cfg(cfg, consts)
        part = os.path.join(wd, "docs.%s.replay" % name)
        res = C.run_tlc("MC_Doc", cfg, "doc" + name, to_file=part, workers=(4 if tier == "quick" else 8),
                        timeout=2400, keep_tags=["REPLAY"], xmx=("6g" if tier == "quick" else "12g"),
                        simulate=num, depth=depth)
        if num is None:
            C.tlc_must_pass(res, "MC_Doc " + name)
        elif res.returncode != 0:
            C.log("\n".join(res.raw_tail[-30:]))
            raise C.ToolError("MC_Doc simulation failed")
        return name, res, part

    if tier == "quick":
        # the quick tier's four small runs side by side
        from concurrent.futures import ThreadPoolExecutor
        with ThreadPoolExecutor(max_workers=4) as ex:
            runs = list(ex.map(one, jobs))
    else:
        runs = [one(j) for j in jobs]
    with open(replay, "w") as f:
        for _, _, part in runs:
            with open(part) as g:
                for line in g:
                    f.write(line)
    if out is not None:
        for name, res, part in runs:
            if name.startswith("exhaustive"):
                out.add_tlc(res)
            out.extra.setdefault("tlc_runs", []).append(
                {"run": name, "states_generated": res.states, "distinct": res.distinct,
                 "replay_lines": C.count_lines(part), "wall_s": round(res.wall, 1)})
    return replay


def _trace_cfg(path, prop, open_names):
    C.write_cfg(path, [
        "SPECIFICATION Spec",
        "CONSTANT Prop = \"%s\"" % prop,
        "CONSTANT Open = %s" % C.tla_set(open_names),
        "POSTCONDITION Done",
        "CHECK_DEADLOCK FALSE",
    ])


def _tlc_chunks(prop_mode, open_names, items, wd, tag, chunk=700, par=6):
    """Run Trace_Doc.tla over `items` (list of dicts), split into chunks that are validated by
    parallel single-worker TLC processes.  -> list of (chunk_offset, TlcResult, n_items)"""
    from concurrent.futures import ThreadPoolExecutor
    cfgname = cfg = os.path.join(wd, "Trace_Doc.%s.cfg" % tag)    # generated cfgs live in the work directory
    _trace_cfg(cfg, prop_mode, open_names)
    jobs = []
    for k in range(0, len(items), chunk):
        part = items[k:k + chunk]
        path = os.path.join(wd, "%s.%d.trace" % (tag, k))
        with open(path, "w") as f:
            for e in part:
                f.write(json.dumps(e, separators=(",", ":")) + "\n")
        jobs.append((k, path, len(part)))

    def one(job):
        k, path, n = job
        to_file = path + ".out" if prop_mode in ("RENDER", "TEXT") else None
        res = C.run_tlc("Trace_Doc", cfgname, "%s%d" % (tag, k), env={"TRACE": path}, workers=1, deque=True,
                        timeout=3000, xmx="3g", to_file=to_file, keep_tags=["REPLAY"] if to_file else None)
        C.tlc_must_pass(res, "Trace_Doc")
        for t, v in res.lines:
            if t == "TRUNCATED":
                raise C.ToolError("trace validation consumed only part of the trace: %s" % (v,))
        if res.distinct != n + 1:
            raise C.ToolError("trace validation visited %d states for %d events" % (res.distinct, n))
        return k, res, n, to_file
    try:
        with ThreadPoolExecutor(max_workers=par) as ex:
            return list(ex.map(one, jobs))
    finally:
        os.unlink(cfg)


def _judge(out, prop, events, wd, tag):
    """events: list of observation dicts -> verdicts through Trace_Doc.tla"""
    if not events:
        return
    for k, res, n, _ in _tlc_chunks(prop, out.open.keys(), events, wd, tag):
        for t, v in res.lines:
            if t == "VERDICT":
                if str(v.get("verdict", "")).startswith("TOOL-"):
                    raise C.ToolError("trace event %s: %s" % (v.get("i"), v.get("verdict")))
                ev = events[k + v["i"] - 1]
                v = dict(v)
                v["i"] = k + v["i"]
                out.verdict(v, {"text": "".join(chr(c) for c in ev["text"]), "event": ev})


RANDOM = {   # doc-record batches: (count, extra args)
    "quick": [(400, []), (150, ["--cr"]), (6, ["--deep"])],
    "thorough": [(20000, []), (4000, ["--cr"]), (40, ["--deep"])],
}


def random_cases(wd, tier, out=None):
    """Seeded random token sequences + token edits from the harness, decided and rendered by the
    specification (Trace_Doc.tla in render mode).  -> path of a REPLAY file"""
    items = []
    for b, (count, extra) in enumerate(RANDOM[tier]):
        path = os.path.join(wd, "rec%d.ndjson" % b)
        C.run_harness(["doc-record", "--seed", str(C.seed() * 100 + b), "--count", str(count), "--out", path]
                      + extra)
        items += C.read_ndjson(path)
    replay = os.path.join(wd, "random.replay")
    insane = 0
    with open(replay, "w") as f:
        for k, res, n, part in _tlc_chunks("RENDER", [], items, wd, "docrender"):
            insane += sum(1 for t, _ in res.lines if t == "INSANE")
            with open(part) as g:
                for line in g:
                    f.write(line)
    if insane * 20 > len(items):
        raise C.ToolError("doc-record produced %d of %d token sequences the surface syntax cannot write"
                          % (insane, len(items)))
    if out is not None:
        out.extra["random_token_sequences"] = len(items)
        out.extra["random_skipped_unwritable"] = insane
    return replay


TEXTEDITS = {"quick": 500, "thorough": 30000}


def text_cases(wd, tier, base_replay, out=None):
    """1-2 random CHARACTER edits of the well-formed renderings in `base_replay`; the specification
    reads each text with its own scanner (XmlLex) and decides well-formedness (Trace_Doc, text mode)."""
    path = os.path.join(wd, "textedit.ndjson")
    C.run_harness(["doc-textedit", "--in", base_replay, "--seed", str(C.seed() * 100 + 7),
                   "--count", str(TEXTEDITS[tier]), "--out", path])
    items = C.read_ndjson(path)
    replay = os.path.join(wd, "textedit.replay")
    with open(replay, "w") as f:
        for k, res, n, part in _tlc_chunks("TEXT", [], items, wd, "doctext", chunk=400, par=7):
            with open(part) as g:
                for line in g:
                    f.write(line)
    if out is not None:
        out.extra["character_edited_texts"] = len(items)
    return replay


# every way of being ill-formed that the statement of C02 lists must really have been exercised
C02_LABELS = ["ETagMismatch", "Unclosed", "DupAttr", "BadChar", "BadName", "BadCharRef", "LtInAttr", "BareAmp",
              "LtInText", "DashDashInComment", "CDEndInText", "UndeclaredEntity", "NoRoot", "SecondRoot",
              "TextAtTopLevel", "LateXmlDecl", "ReservedPITarget", "UnparsedEntityRef", "EntityCycleOrUndeclared",
              "BadXmlDecl", "BadPubidChar", "ExternalEntityInAttr", "UnquotedAttr", "MissingSpaceBetweenAttrs"]
C01_KINDS = ["xmldecl", "comment", "pi", "ws", "doctype", "entity", "uentity", "notation", "attlist", "elemdecl",
             "dtdend", "stag", "etag", "text", "cdata"]


def _vacuity_guard(out, prop, events, rel):
    """A run that did not exercise what the property names is a tool error, not a pass."""
    import collections
    labels = collections.Counter()
    kinds = collections.Counter()
    styles = collections.Counter()
    for e in rel:
        for v in e["viol"]:
            labels[v] += 1
        if e["wf"] and "src" not in e:
            for t in e["toks"]:
                kinds[t["k"]] += 1
            st = e["style"]
            for k in ("quote", "tagws", "eqws", "empty", "order", "declws"):
                styles["%s=%s" % (k, st[k])] += 1
            for m in st["chars"]:
                styles["chars=%s" % m] += 1
    if prop == "C02":
        out.extra["violated_constraints_exercised"] = dict(sorted(labels.items()))
        missing = [x for x in C02_LABELS if labels[x] == 0]
        if missing:
            raise C.ToolError("vacuity guard: no ill-formed input of kind %s was generated" % missing)
    else:
        out.extra["token_kinds_in_well_formed_inputs"] = dict(sorted(kinds.items()))
        out.extra["style_choices_exercised"] = dict(sorted(styles.items()))
        missing = [x for x in C01_KINDS if kinds[x] == 0]
        want = ["quote=dq", "quote=sq", "quote=mixed", "tagws=0", "tagws=1", "tagws=2", "eqws=True", "eqws=False",
                "empty=tag", "empty=pair", "order=fwd", "order=rev", "declws=0", "declws=1",
                "chars=lit", "chars=dec", "chars=hex", "chars=ent", "chars=cdata"]
        missing += [x for x in want if styles[x] == 0]
        if missing:
            raise C.ToolError("vacuity guard: never exercised: %s" % missing)


def replay_cases(replay, obs, cmd=None):
    """A harness driver (default: doc-replay --in replay) under the harness watchdog: a case on which the code
    under test hangs or takes the process down becomes a `crash` event (judged like any other) and the run
    continues after it.  The driver must support --out, --skip, --watch, --sync."""
    done = 0
    crashes = 0
    cmd = cmd or ["doc-replay", "--in", replay]
    with open(obs, "w") as f:
        while True:
            part = "%s.part%d" % (obs, crashes)
            _, crashed = C.run_harness_watched(cmd + ["--out", part, "--skip", str(done)], part, timeout=7200)
            with open(part) as g:
                for line in g:
                    f.write(line)
                    done += 1
            os.unlink(part)
            if not crashed:
                return crashes
            crashes += 1
            if crashes > 20:
                raise C.ToolError("doc-replay: more than 20 inputs crash or hang the code under test")


def _relevant(prop, e):
    if prop == "C01":
        return bool(e["wf"])
    if prop == "C02":
        return not e["wf"]
    return e["raw"]["parse"] == "ok" and e["raw"]["rest"] == 0      # C04: accepted inputs


def _text(e):
    return "".join(chr(c) for c in e["text"])


def run(prop, tier):
    if prop == "C03":
        import docs_cost
        return docs_cost.run(prop, tier)
    if prop == "C11":
        import docs_attr
        return docs_attr.run(prop, tier)
    out = C.Outcome(prop, tier)
    wd = C.workdir("docs" + prop)
    try:
        import time
        t0 = time.time()
        replay = mc_cases(wd, tier, out, prop=prop)
        t1 = time.time()
        rnd = random_cases(wd, tier, out)
        t2 = time.time()
        with open(replay, "a") as f, open(rnd) as g:
            for line in g:
                f.write(line)
        if prop in ("C02", "C04"):
            txt = text_cases(wd, tier, replay, out)
            with open(replay, "a") as f, open(txt) as g:
                for line in g:
                    f.write(line)
        obs = os.path.join(wd, "docs.obs")
        out.extra["inputs_that_crashed_or_hung_the_parser"] = replay_cases(replay, obs)
        t3 = time.time()
        events = C.read_ndjson(obs)
        rel = [e for e in events if _relevant(prop, e)]
        slow = [e for e in rel if not e["fast"]]
        fast = [e for e in rel if e["fast"]]
        # every event that is not trivially ok is judged by TLC, plus a slice of the fast-path ones
        cap = JUDGE_FAST_CAP[tier]
        step = max(1, len(fast) // cap) if fast else 1
        judged = slow + fast[::step][:cap]
        _judge(out, prop, judged, wd, "doctv")
        C.log("stages: model checking %.0fs, random writer + spec rendering %.0fs, replay %.0fs, trace validation %.0fs"
              % (t1 - t0, t2 - t1, t3 - t2, time.time() - t3))
        out.traces = len(judged)
        out.evaluations = len(rel)
        seen = set()
        for e in rel:
            t = _text(e)
            if t in seen:
                continue
            seen.add(t)
            if len(e["toks"]) >= 4:
                out.nontriv(t)
        # samples: one small case and the richest ones (most tokens) of the run
        rich = sorted(rel, key=lambda e: -len(e["toks"]))[:4]
        for e in rel[:1] + rich:
            out.sample({"text": _text(e)[:600], "tokens": [t["k"] for t in e["toks"]][:60], "style": e["style"],
                        "wf": e["wf"], "viol": e["viol"], "raw": e["raw"]["parse"], "rest": e["raw"]["rest"],
                        "round_trip": {k: e["rt"].get(k) for k in ("print", "reparse", "eq", "projsame", "fix")},
                        "fast": e["fast"], "source": e.get("src", "tokens")})
        _vacuity_guard(out, prop, events, rel)
        out.extra["documents_replayed"] = len(events)
        out.extra["relevant_for_property"] = len(rel)
        out.extra["judged_by_tlc"] = len(judged)
        out.extra["fast_path_only"] = len(rel) - len(judged)
        out.rule = ("a case is one rendering (token sequence x style) of a writer behaviour; non-trivial = "
                    "distinct text with >= 3 tokens before `end`")
        out.assumptions = [
            "exhaustive writer: %s; simulation beyond: %s" % (EXH[tier], [(c, n, d) for c, n, d in SIM[tier]]),
            "token alphabet of MC_Doc.tla (names a, b, p:a; 4 start-tags, 4 texts, CDATA, comment, PI, 3 XML "
            "declarations, 4 DOCTYPE shapes, ENTITY/NOTATION/ATTLIST/ELEMENT declarations; 30 ill-formed tokens)",
            "namespace declarations are not compared; no external subset is read; no parameter entities",
            "C02/C04 also: 1-2 character-level edits of well-formed renderings, read by the specification's scanner "
            "XmlLex.tla (texts with parameter entities are skipped; a name with two colons is not demanded to be rejected)",
            "fast path: an observation exactly equal to the REPLAY expectation is counted ok without TLC "
            "(a slice of those is judged by Trace_Doc.tla as well)",
        ]
        return out.finish()
    finally:
        C.cleanup(wd)


def replay(prop, path):
    if prop == "C03":
        import docs_cost
        return docs_cost.replay(prop, path)
    if prop == "C11":
        import docs_attr
        return docs_attr.replay(prop, path)
    out = C.Outcome(prop, "quick")
    wd = C.workdir("docsr" + prop)
    try:
        v = json.load(open(path))
        ev = v.get("case", v).get("event", v.get("case", v))
        inp = os.path.join(wd, "r.in")
        with open(inp, "w") as f:
            case = {"toks": ev["toks"], "style": ev["style"], "text": ev["text"],
                    "wf": ev.get("wf", False), "viol": ev.get("viol", []), "inprofile": True, "tree": {}}
            if "src" in ev:
                case["src"] = ev["src"]
            f.write(json.dumps(case) + "\n")
        obs = os.path.join(wd, "r.obs")
        replay_cases(inp, obs)
        events = C.read_ndjson(obs)
        _judge(out, prop, events, wd, "docrv")
        out.traces = len(events)
        out.evaluations = len(events)
        out.nontrivial_count = 1
        out.sample({"text": _text(events[0])})
        out.rule = "replay of one stored case"
        return out.finish()
    finally:
        C.cleanup(wd)
