"""Documents engine: C01 C02 C04 (this file), C11 (docs_attr.py), C03 (docs_cost.py)."""
import common as C


def run(prop, tier):
    if prop == "C03":
        import docs_cost
        return docs_cost.run(prop, tier)
    if prop == "C11":
        import docs_attr
        return docs_attr.run(prop, tier)
    raise C.ToolError("not built yet: " + prop)


def replay(prop, path):
    if prop == "C03":
        import docs_cost
        return docs_cost.replay(prop, path)
    if prop == "C11":
        import docs_attr
        return docs_attr.replay(prop, path)
    raise C.ToolError("not built yet: " + prop)
