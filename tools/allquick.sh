#!/bin/bash
# development aid: run every quick check once with the given seed; print one line per property
SEED=${1:-1}
cd /verif
for p in C01 C02 C03 C04 C05 C06 C07 C08 C09 C10 C11 C12 C13 C14 C15 C16 C17 C18 C19; do
  s=$(date +%s)
  out=$(VERIF_SEED=$SEED ./check $p --tier quick 2>&1); rc=$?
  e=$(( $(date +%s) - s ))
  echo "seed=$SEED $p rc=$rc ${e}s $(echo "$out" | grep -E "quick:" | tail -1 | cut -c1-140)"
  if [ $rc -ne 0 ]; then echo "$out" | grep -vE "^WARNING" | grep -E "VIOLATION|TOOL" | head -3 | cut -c1-300; fi
done
