#!/bin/bash
# development aid: binding self-test of every check (falsified recordings must be rejected); one line per property
cd /verif
for p in C01 C02 C03 C04 C05 C06 C07 C08 C09 C10 C11 C12 C13 C14 C15 C16 C17 C18 C19; do
  out=$(./check $p --selftest ${1:-7} 2>&1); rc=$?
  echo "$p rc=$rc $(echo "$out" | grep -E "^SELFTEST" | tail -1) | $(echo "$out" | grep -E "quick:" | tail -1 | cut -c1-120)"
done
