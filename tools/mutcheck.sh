#!/bin/bash
# Development aid (not a registered command): run one check of a COPY of /verif against a scratch worktree of /repo
# with a patch applied, so that seeded defects never touch /repo itself.
#   tools/mutcheck.sh <patch-file> <PROP> [quick|thorough]
set -u
PATCH=$1; PROP=$2; TIER=${3:-quick}
R=/tmp/mutrun
mkdir -p $R
# one run at a time: the scratch copies are shared
exec 9>$R/.lock
flock 9
if [ ! -d $R/repo ]; then git -C /repo worktree add -f --detach $R/repo HEAD >/dev/null 2>&1 || exit 2; fi
git -C $R/repo checkout -q --detach $(git -C /repo rev-parse HEAD) 2>/dev/null
git -C $R/repo checkout -q -- . ; git -C $R/repo clean -fdq -e target
if [ "$PATCH" != "none" ]; then git -C $R/repo apply "$PATCH" || { echo "PATCH DOES NOT APPLY"; exit 2; }; fi
mkdir -p $R/verif
rsync -a --delete --exclude work --exclude harness/target --exclude replays --exclude .git /verif/ $R/verif/
sed -i "s#/repo/#$R/repo/#g" $R/verif/harness/Cargo.toml
cp $R/repo/Cargo.lock $R/verif/harness/Cargo.lock 2>/dev/null
cd $R/verif && VERIF_REPO=$R/repo ./check $PROP --tier $TIER 2>&1 | grep -vE "^WARNING conda" | cut -c1-220 | tail -25
echo "exit=${PIPESTATUS[0]}"
