#!/usr/bin/env python3
"""Development aid: confirm a seeded defect in its scratch worktree and file it under /verif/seeded/.
  confirm_mutant.py <worktree> <K> <seeded-id> "<check result line>"
Confirms: (1) with the patch the whole test suite passes, (2) the demo fails with the patch, (3) passes without."""
import json, os, re, shutil, subprocess, sys
wt, k, sid = sys.argv[1], sys.argv[2], sys.argv[3]
detected = sys.argv[4] if len(sys.argv) > 4 else ""
mo = os.path.join(wt, "mutants_out")
meta = json.load(open(os.path.join(mo, "m%s.json" % k)))
patch = os.path.join(mo, "m%s.patch" % k)
env = dict(os.environ, CARGO_TARGET_DIR=os.path.join(wt, "target"), CARGO_NET_OFFLINE="true")
def sh(cmd):
    p = subprocess.run(cmd, shell=True, cwd=wt, env=env, stdout=subprocess.PIPE, stderr=subprocess.STDOUT, text=True)
    return p.returncode, p.stdout
def demo():
    # the demonstration is copied into <crate>/tests/, which does not exist in a clean worktree
    import shlex
    toks = shlex.split(meta["demo_cmd"].replace("&&", " && "))
    for i, t in enumerate(toks):
        if t == "cp" and i + 2 < len(toks):
            d = os.path.dirname(toks[i + 2])
            if d:
                os.makedirs(os.path.join(wt, d) if not os.path.isabs(d) else d, exist_ok=True)
    return sh(meta["demo_cmd"])
sh("git checkout -q -- . ")
rc, _ = sh("git apply " + patch)
assert rc == 0, "patch does not apply"
rc, out = sh("cargo test --workspace --no-fail-fast --offline 2>&1 | grep -E '^test result|FAILED'")
passed = sum(int(x) for x in re.findall(r"(\d+) passed", out))
failed = sum(int(x) for x in re.findall(r"(\d+) failed", out))
rc_with, out_with = demo()
sh("git apply -R " + patch)
rc_without, out_without = demo()
# clean the demo file(s) out of the worktree again
sh("git clean -fdq -e target -e mutants_out")
ok = passed >= 603 and failed == 0 and rc_with != 0 and rc_without == 0
print("suite: %d passed %d failed; demo with patch rc=%d, without rc=%d -> %s" % (passed, failed, rc_with, rc_without, "CONFIRMED" if ok else "NOT CONFIRMED"))
if ok:
    d = os.path.join("/verif/seeded", sid)
    os.makedirs(d, exist_ok=True)
    shutil.copy(patch, os.path.join(d, "patch.diff"))
    for f in os.listdir(mo):
        if f.startswith("m%s_demo" % k):
            shutil.copy(os.path.join(mo, f), os.path.join(d, f.replace("m%s_" % k, "")))
    json.dump({"property": meta["property"], "breaks": meta["summary"], "needs": meta["needs"],
               "files": meta.get("files"), "demo_cmd": meta["demo_cmd"],
               "confirmed": {"suite_with_patch": "%d passed, %d failed" % (passed, failed),
                             "demo_with_patch": "fails (exit %d)" % rc_with, "demo_without_patch": "passes",
                             "how": "tools/confirm_mutant.py in the scratch worktree (removed afterwards)"},
               "detected_by": detected}, open(os.path.join(d, "meta.json"), "w"), indent=1)
sys.exit(0 if ok else 1)
