#!/bin/bash
# development aid: evaluate mutants m1..m3 of the given properties serially: MUTROOT=/tmp/mut3 tools/mutbatch.sh P1 P2 ...
for P in "$@"; do
  for K in 1 2 3; do
    f=${MUTROOT:-/tmp/mut3}/$P/mutants_out/m$K.patch
    [ -f $f ] || continue
    echo "=== $P m$K"
    /verif/tools/mutcheck.sh $f $P quick 2>&1 | tail -4 | cut -c1-400
  done
done
