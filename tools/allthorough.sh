#!/bin/bash
# development aid: run every thorough check once; one line per property
cd /verif
for p in ${@:-C16 C18 C10 C17 C19 C09 C06 C08 C05 C07 C11 C01 C02 C04 C03 C15 C14 C12 C13}; do
  s=$(date +%s)
  out=$(./check $p --tier thorough 2>&1); rc=$?
  e=$(( $(date +%s) - s ))
  echo "$p rc=$rc ${e}s $(echo "$out" | grep -E "thorough:" | tail -1 | cut -c1-150)"
  if [ $rc -ne 0 ]; then echo "$out" | grep -vE "^WARNING" | grep -E "VIOLATION|TOOL" | head -3 | cut -c1-300; fi
done
