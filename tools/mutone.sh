#!/bin/bash
# usage: r2one.sh P K [CHECKPROP]
P=$1; K=$2; C=${3:-$1}
echo "=== $P m$K (check $C)"
/verif/tools/mutcheck.sh ${MUTROOT:-/tmp/mut3}/$P/mutants_out/m$K.patch $C quick 2>&1 | tail -4 | cut -c1-400
