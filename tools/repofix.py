#!/usr/bin/env python3
"""Development aid: stage an edit of /repo computed against HEAD, leaving other people's uncommitted hunks alone.
usage: repofix.py <edits.py>    where edits.py defines EDITS = [(path, old, new), ...]
The patch is applied to the index and to the working tree; run the tests, then `git -C /repo commit -m "fix: ..."`."""
import os, subprocess, sys, tempfile, runpy
ed = runpy.run_path(sys.argv[1])["EDITS"]
tmp = tempfile.mkdtemp(prefix="repofix")
files = {}
for e in ed:
    path, old, new = e[0], e[1], e[2]
    want = e[3] if len(e) > 3 else 1
    if path not in files:
        files[path] = subprocess.run(["git", "-C", "/repo", "show", "HEAD:" + path], capture_output=True, text=True, check=True).stdout
    s = files[path]
    if s.count(old) != want:
        sys.exit("edit of %s: old text occurs %d times, expected %d" % (path, s.count(old), want))
    files[path] = s.replace(old, new)
patch = ""
for path, new in files.items():
    a = os.path.join(tmp, "a", path); b = os.path.join(tmp, "b", path)
    os.makedirs(os.path.dirname(a), exist_ok=True); os.makedirs(os.path.dirname(b), exist_ok=True)
    open(a, "w").write(subprocess.run(["git", "-C", "/repo", "show", "HEAD:" + path], capture_output=True, text=True).stdout)
    open(b, "w").write(new)
    patch += subprocess.run(["diff", "-u", "a/" + path, "b/" + path], cwd=tmp, capture_output=True, text=True).stdout
pf = os.path.join(tmp, "fix.patch")
open(pf, "w").write(patch)
for extra in (["--cached"], []):
    r = subprocess.run(["git", "-C", "/repo", "apply"] + extra + [pf], capture_output=True, text=True)
    if r.returncode != 0:
        sys.exit("git apply %s failed: %s" % (extra, r.stderr))
print("staged and applied:", pf)
